"""Per-property check procedures.  Each returns the process exit code."""
import json, re, os, sys, time, collections, threading, concurrent.futures
import vlib
from vlib import WORK, HARNESS, ToolError, log, Verdict

REGISTRY = {}
def prop(*ids):
    def deco(fn):
        for i in ids:
            REGISTRY[i] = fn
        return fn
    return deco

# ------------------------------------------------------------------------------------------------
# Wire family: one TLC run of WireMC (writer / reader machines over the type catalogue), generated
# Rust types, replay of every behaviour against the real code.
# ------------------------------------------------------------------------------------------------
WIRE_ASSUME = [
    "bounded universe: type catalogue and boundary-value tables of spec/WireMC.tla, spec/WireVals.tla for the tier",
    "the specification (Enc/Dec, writer/reader machines) is hand-written from the documented format; "
    "it is cross-checked inside TLC (machine output = Enc, Dec(Enc(v)) = v, every strict prefix rejected)",
    "bzip2 and AES-GCM are opaque layers (round trip and framing only)",
]

MODELS = {"wire": ("WireMC.tla", "WireMC_%s.cfg"), "evo": ("Evo.tla", "Evo_%s.cfg"), "mut": ("MutMC.tla", "MutMC_%s.cfg"),
          "gate": ("GateMC.tla", "GateMC_%s.cfg")}
_tlc_cache = {}

def model_records(model, tier, fresh):
    """ndjson of TLC's REPLAY records for a model; runs TLC when `fresh` or when the file is missing.
    returns (path, stats or None)"""
    recs = os.path.join(WORK, "%s_%s.ndjson" % (model, tier))
    if (model, tier) in _tlc_cache:
        return recs, _tlc_cache[(model, tier)]
    if not fresh and os.path.exists(recs):
        return recs, None
    mod, cfg = MODELS[model]
    r = vlib.run_tlc(mod, cfg % tier, "%s_%s" % (model, tier), workers=8, timeout=6000 if tier == "thorough" else 1200)
    if r["violated"]:
        raise ToolError("%s: TLC reports a violation in the specification itself (see %s)" % (mod, r["out"]))
    n = vlib.printed_json(r["out"], recs)
    if n == 0:
        raise ToolError("%s produced no behaviours" % mod)
    _tlc_cache[(model, tier)] = r["stats"]
    return recs, r["stats"]

def family_build(tier, need):
    """Runs TLC for the models in `need`, (re)generates the Rust types from the union of all models'
    descriptors (so that the generated crates are identical whichever property is being checked) and builds."""
    out = {}
    inputs = []
    for m in MODELS:
        path, stats = model_records(m, tier, fresh=(m in need))
        out[m] = (path, stats)
        inputs.append(path)
    # thorough: ~13 000 types; more, smaller crates and fewer parallel rustc processes keep the build within memory
    g = vlib.gen_types(os.path.join(HARNESS, "genwire"), "genwire", 12 if tier == "quick" else 36, inputs)
    log("[gen] %s" % g)
    binp = vlib.cargo_build("wire")
    return out, binp

def wire_pipeline(tier, replay=None):
    """returns (tlc stats, records path, results path, n records)"""
    built, binp = family_build(tier, ["wire"])
    recs, stats = built["wire"]
    if replay:
        rec = json.load(open(replay))["record"]
        recs = os.path.join(WORK, "wire_replay.ndjson")
        open(recs, "w").write(json.dumps(rec) + "\n")
        stats = {"generated": 0, "distinct": 0}
    res = recs + ".res"
    vlib.run_bin_resilient(binp, ["replay"], recs, res, "c01.died", env={"WIRE_ALLMODES_EVERY": "1" if tier == "thorough" else "3"})
    return stats, recs, res, sum(1 for _ in open(recs))

def wire_check(prop_id, tier, replay, prefixes, level_text, extra=None):
    v = Verdict(prop_id, tier)
    if replay and "mode" in json.load(open(replay)).get("record", {}):
        # a behaviour of the Evo model (versioned definitions)
        cov = {"states": 0, "transitions": 0, "traces_validated_against_impl": 0, "evaluations": 0, "distinct_nontrivial": 0,
               "rule": "replay of one recorded behaviour", "exhaustive": False, "explanation": level_text}
        extra(v, cov, tier, replay)
        return v.finish("model_checking", cov, WIRE_ASSUME)
    stats, recs, res, n = wire_pipeline(tier, replay)
    records = open(recs).read().splitlines()
    nontrivial = set()
    types = set()
    samples = []
    evals = 0
    for line in open(res):
        r = json.loads(line)
        rec = json.loads(records[r["i"]])
        evals += 1
        types.add(json.dumps(rec["t"], sort_keys=True))
        if len(rec["bytes"]) > 0:
            nontrivial.add((json.dumps(rec["t"], sort_keys=True), json.dumps(rec["v"], sort_keys=True)))
        if len(samples) < 3 and len(rec["bytes"]) > 6:
            samples.append({"type": vlib.show(rec["t"]), "ver": rec["ver"], "value": rec["v"], "bytes": rec["bytes"],
                            "write_calls": rec["wcalls"]})
        for f in r["fails"]:
            if f["check"].startswith("tool."):
                raise ToolError("harness: %s %s" % (f["check"], f["detail"][:200]))
            if any(f["check"].startswith(p) for p in prefixes):
                v.report(f["check"], {"t": rec["t"], "ver": rec["ver"], "v": rec["v"]},
                         "%s :: %s" % (vlib.show(rec["t"]), f["detail"]), rec)
    cov = {"states": stats["distinct"], "transitions": stats["generated"],
           "traces_validated_against_impl": evals,
           "evaluations": evals, "distinct_nontrivial": len(nontrivial),
           "rule": "one behaviour per (type descriptor, boundary value) of the catalogue; non-trivial = encodes to at least one byte; distinct by (descriptor, value)",
           "type_expressions": len(types), "samples": samples, "exhaustive": not replay,
           "explanation": level_text}
    if extra and not replay:
        extra(v, cov, tier, None)
    return v.finish("model_checking", cov, WIRE_ASSUME)

@prop("C01")
def c01(p, tier, replay):
    return wire_check(p, tier, replay, ["c01."],
        "TLC enumerates every (type, value) of the catalogue, runs the writer and reader machines and proves "
        "RoundTrip/ConsumesExactly on the model; every behaviour is replayed on the real code through bare, plain, "
        "schema-less, bzip2 and encrypted containers and the loaded value / consumed length compared")

def c02_versioned(v, cov, tier, replay):
    """C02 quantifies over every data version a type declares: the same-version behaviours of the Evo model
    (program i writing at version i) through bare, plain, schema-less and bzip2 containers"""
    built, binp = family_build(tier, ["evo"])
    recs, stats = built["evo"]
    sel = os.path.join(WORK, "evo_%s_c02.sel" % tier)
    with open(sel, "w") as o:
        if replay:
            o.write(json.dumps(json.load(open(replay))["record"]) + "\n")
        else:
            for line in open(recs):
                if '"mode":"up"' in line:
                    r = json.loads(line)
                    if r["i"] == r["j"]:
                        o.write(line)
    res = sel + ".res"
    vlib.run_bin_resilient(binp, ["evo"], sel, res, "c02.died")
    records = open(sel).read().splitlines()
    n = 0
    for line in open(res):
        r = json.loads(line)
        rec = json.loads(records[r["i"]])
        n += 1
        for f in r["fails"]:
            if f["check"].startswith("tool."):
                raise ToolError("harness: %s %s" % (f["check"], f["detail"][:200]))
            if f["check"].startswith("c02."):
                v.report(f["check"], {"t": rec["d"], "i": rec["i"], "j": rec["j"]},
                         "%s written at its version %d :: %s" % (vlib.show(rec["ts"][0]), rec["i"], f["detail"]), rec)
    cov["versioned_definitions_evaluated"] = n
    cov["evaluations"] = cov.get("evaluations", 0) + n
    cov["traces_validated_against_impl"] = cov.get("traces_validated_against_impl", 0) + n
    if stats:
        cov["states"] = cov.get("states", 0) + stats["distinct"]
        cov["transitions"] = cov.get("transitions", 0) + stats["generated"]

@prop("C02")
def c02(p, tier, replay):
    return wire_check(p, tier, replay, ["c02."],
        "TLC computes the documented encoding (Enc) and the machine output for every (type, value); the real "
        "bare_serialize / save / save_noschema bytes must equal them exactly, the header must be the documented one, the "
        "decompressed body of the bzip2 container must end with them, and the real reader must load the specification's bytes; "
        "the same for every versioned definition of the Evo model written at each of its own data versions",
        extra=c02_versioned)

EVO_ASSUME = [
    "histories: final definitions of spec/Evo.tla (Histories) with versions 0..2; each program version is DefAt(D, i), generated as its own Rust type",
    "the meaning oracles Load / Down are defined by structural recursion, independently of the reader machine Wire!Dec, and TLC proves they agree",
    "conversion functions are the fixed zero-extending conversions of Wire!Conv (generated as the versions_as function)",
]

def evo_check(prop_id, tier, replay, mode, prefix, level_text):
    v = Verdict(prop_id, tier)
    built, binp = family_build(tier, ["evo"])
    recs, stats = built["evo"]
    sel = os.path.join(WORK, "evo_%s_%s.sel" % (tier, mode))
    if replay:
        rec = json.load(open(replay))["record"]
        open(sel, "w").write(json.dumps(rec) + "\n")
        stats = {"generated": 0, "distinct": 0}
    else:
        with open(sel, "w") as o:
            for line in open(recs):
                if '"mode":"%s"' % mode in line:
                    o.write(line)
    res = sel + ".res"
    vlib.run_bin_resilient(binp, ["evo"], sel, res, prefix + "died")
    records = open(sel).read().splitlines()
    evals, nontrivial, hist, samples = 0, set(), set(), []
    for line in open(res):
        r = json.loads(line)
        rec = json.loads(records[r["i"]])
        evals += 1
        hist.add(json.dumps(rec["d"], sort_keys=True))
        if rec["i"] != rec["j"]:
            nontrivial.add((json.dumps(rec["d"], sort_keys=True), rec["i"], rec["j"], json.dumps(rec["v"], sort_keys=True)))
        if len(samples) < 3 and rec["i"] != rec["j"] and len(rec["bytes"]) > 3:
            samples.append({"history": vlib.show(rec["d"]), "written_at": rec["i"], "other_version": rec["j"],
                            "writer_def": vlib.show(rec["ts"][0] if mode == "up" else rec["ts"][1]),
                            "reader_def": vlib.show(rec["ts"][1] if mode == "up" else rec["ts"][0]),
                            "value": rec["v"], "bytes": rec["bytes"], "expected": rec["expect"]})
        for f in r["fails"]:
            if f["check"].startswith("tool."):
                raise ToolError("harness: %s %s" % (f["check"], f["detail"][:200]))
            if f["check"].startswith(prefix):
                v.report(f["check"], {"t": rec["d"], "i": rec["i"], "j": rec["j"]},
                         "%s i=%d j=%d :: %s" % (vlib.show(rec["d"]), rec["i"], rec["j"], f["detail"]), rec)
    cov = {"states": stats["distinct"] if stats else 0, "transitions": stats["generated"] if stats else 0,
           "traces_validated_against_impl": evals, "evaluations": evals, "distinct_nontrivial": len(nontrivial),
           "rule": "one behaviour per (history, version pair i<=j, boundary value); non-trivial = the two versions differ; distinct by (history, i, j, value)",
           "histories": len(hist), "samples": samples, "exhaustive": not replay, "explanation": level_text}
    return v.finish("model_checking", cov, EVO_ASSUME)

@prop("C03")
def c03(p, tier, replay):
    return evo_check(p, tier, replay, "up", "c03.",
        "TLC enumerates evolution histories x version pairs x values, runs the writer machine of program i and the reader of "
        "program j and proves EvolutionLoad (reader result = Load oracle); each behaviour is replayed with the generated Rust "
        "types of both program versions through bare, plain, schema-less, bzip2 and encrypted containers")

@prop("C18")
def c18(p, tier, replay):
    return evo_check(p, tier, replay, "down", "c18.",
        "TLC enumerates add/AbiRemoved histories x (current n, written k<=n) x values and proves OlderWrite (bytes = encoding of "
        "the version-k definition, reader of program k obtains Down(value)); each behaviour is replayed: program n's "
        "bare_serialize at version k, program k's bare_deserialize")

def prebuild():
    """used by bin/setup: generate sources for the quick tier and build all harness binaries"""
    family_build("quick", list(MODELS))
    abi_build("quick", None, None)
    for pkg in ("intro", "schema", "stream", "plugin"):
        vlib.cargo_build(pkg)
    # the Miri builds of the C06 / C09 observers (again: an absent toolchain is reported by the checks themselves)
    import subprocess
    menv = dict(os.environ, CARGO_NET_OFFLINE="true", MIRIFLAGS="-Zmiri-disable-isolation")
    inputs = os.path.join(HARNESS, "miri", "src", "inputs.rs")
    if not os.path.exists(inputs):
        open(inputs, "w").write("pub static INPUTS: &[(&str, &[u8])] = &[];\n")
    subprocess.run(["cargo", "+nightly", "miri", "run", "--offline"], cwd=os.path.join(HARNESS, "miri"), env=menv, stdout=subprocess.PIPE, stderr=subprocess.STDOUT)
    empty = os.path.join(WORK, "empty.ndjson")
    open(empty, "w").close()
    subprocess.run(["cargo", "+nightly", "miri", "run", "--offline", "-p", "abi", "--", "calls", empty, os.path.join(WORK, "empty.out")], cwd=HARNESS,
                   env=menv, stdout=subprocess.PIPE, stderr=subprocess.STDOUT)
    # the separately compiled implementation of C11 (nightly, randomised layout); absent toolchain = the check says so itself
    tdir = os.environ.get("CARGO_TARGET_DIR", os.path.join(HARNESS, "target"))
    subprocess.run(["cargo", "+nightly", "build", "--offline", "-p", "plugin"], cwd=HARNESS, stdout=subprocess.PIPE, stderr=subprocess.STDOUT,
                   env=dict(os.environ, CARGO_TARGET_DIR=tdir + "_nightly_1", CARGO_NET_OFFLINE="true",
                            RUSTFLAGS="-Zrandomize-layout -Zlayout-seed=1 --cfg avl_savefile_verif --check-cfg cfg(avl_savefile_verif)"))

# ------------------------------------------------------------------------------------------------
# C12: schemas are faithful (impl -> spec trace validation with SchemaTrace.tla)
# ------------------------------------------------------------------------------------------------
def c12_requests(tier, built):
    """groups TLC's behaviours by (writer type, version): the observations the harness must record"""
    groups = collections.OrderedDict()
    def add(t, ver, v):
        if vlib.any_node(t, lambda x: x["k"] == "lib" and x["s"].startswith("Rec")):
            return      # recursive definitions: the recursion marker is legitimate there; its referent is not part of the tree
        k = (json.dumps(t, sort_keys=True), ver)
        g = groups.setdefault(k, {"t": t, "ver": ver, "vs": [], "seen": set()})
        vk = json.dumps(v, sort_keys=True)
        if vk not in g["seen"] and len(g["vs"]) < 12:
            g["seen"].add(vk)
            g["vs"].append(v)
    for line in open(built["wire"][0]):
        r = json.loads(line)
        add(r["t"], r["ver"], r["v"])
    for line in open(built["evo"][0]):
        r = json.loads(line)
        add(r["ts"][0] if r["mode"] == "up" else r["ts"][1], r["i"], r["v"])
    return groups

@prop("C12")
def c12(p, tier, replay):
    v = Verdict(p, tier)
    built, binp = family_build(tier, ["wire", "evo"])
    req = os.path.join(WORK, "c12_%s.req" % tier)
    if replay:
        rec = json.load(open(replay))["record"]
        open(req, "w").write(json.dumps({"t": rec["t"], "ver": rec["ver"], "vs": [c["v"] for c in rec["cases"]]}) + "\n")
    else:
        groups = c12_requests(tier, built)
        with open(req, "w") as o:
            for g in groups.values():
                o.write(json.dumps({"t": g["t"], "ver": g["ver"], "vs": g["vs"]}) + "\n")
    obs = os.path.join(WORK, "c12_%s.obs" % tier)
    vlib.run_bin(binp, ["schemas", req, obs])
    observations = []
    for line in open(obs):
        o = json.loads(line)
        if "tool_error" in o:
            raise ToolError("harness: " + o["tool_error"])
        observations.append(o)
    # a schema() that panics / errors is itself a violation (no observation to validate)
    clean = os.path.join(WORK, "c12_%s.clean.obs" % tier)
    idx = []
    with open(clean, "w") as out:
        for i, o in enumerate(observations):
            if "schema_error" in o:
                v.report("c12.schema_panics", {"t": o["t"], "ver": o["ver"]}, "%s v%d :: %s" % (vlib.show(o["t"]), o["ver"], o["schema_error"]), o)
            else:
                out.write(json.dumps(o) + "\n")
                idx.append(i)
    r = vlib.run_tlc("SchemaTrace.tla", "SchemaTrace.cfg", "schematrace_" + tier, workers=8, timeout=3000,
                     extra_env={"OBS": clean}, java_opts="-Xss1g -Xmx12g")
    if r["violated"]:
        raise ToolError("SchemaTrace: unexpected TLC error (see %s)" % r["out"])
    rej = os.path.join(WORK, "c12_%s.rej" % tier)
    vlib.printed_json(r["out"], rej)
    nrej = 0
    for line in open(rej):
        j = json.loads(line)
        o = observations[idx[j["i"] - 1]]
        nrej += 1
        why = "; ".join(sorted(set(b["why"] for b in j["bad"])))
        v.report("c12.trace_rejected", {"t": o["t"], "ver": o["ver"]},
                 "%s v%d :: %s" % (vlib.show(o["t"]), o["ver"], why), o)
    ncases = sum(len(o.get("cases", [])) for o in observations)
    samples = [{"type": vlib.show(o["t"]), "ver": o["ver"], "real_schema": o["schema"], "first_case": o["cases"][:1]}
               for o in observations if "schema" in o and len(o["cases"]) > 0 and o["t"]["k"] in ("struct", "enum")][:2]
    cov = {"states": r["stats"]["distinct"], "transitions": r["stats"]["generated"],
           "traces_validated_against_impl": len(idx) - nrej,
           "evaluations": ncases, "distinct_nontrivial": len([o for o in observations if o.get("cases") and any(len(c["bytes"]) > 0 for c in o["cases"])]),
           "rule": "one observation per (type definition, data version) that occurs as a writer in the Wire and Evo models, with up to 12 values each; non-trivial = at least one value encodes to >= 1 byte",
           "observations": len(observations), "rejected": nrej, "samples": samples, "exhaustive": not replay,
           "explanation": "every observation (REAL schema, REAL bytes) recorded from the implementation is validated by TLC against "
                          "spec/SchemaTrace.tla: the schema-driven generic reader must consume all bytes and recover the token stream "
                          "(widths, lengths, tags, order) that spec/Schema.tla!TokensOf gives for the value"}
    return v.finish("model_checking", cov, [
        "bounded universe: writer types / versions / values of the Wire and Evo models",
        "enum reading rule: 1-byte tags select the variant whose schema discriminant equals the tag, wider tags select by position",
        "grouping by struct / tuple / array is not part of the compared structure (only order, widths, lengths, tags)"])

# ------------------------------------------------------------------------------------------------
# C04: packed fast path (a) transparent  (b) only for padding-free, wire-ordered layouts
# ------------------------------------------------------------------------------------------------
def _bulk_relevant(t):
    return vlib.any_node(t, lambda x: x["k"] in ("vec", "arr", "struct", "tup", "enum"))

@prop("C04")
def c04(p, tier, replay):
    v = Verdict(p, tier)
    built, binp = family_build(tier, ["wire", "evo"])
    # ---- (b) impl -> spec: REAL packed answer + OBSERVED layout validated against Packed.tla!TrulyPacked
    req = os.path.join(WORK, "c04_%s.req" % tier)
    seen = collections.OrderedDict()
    def want(t, ver):
        seen.setdefault(json.dumps(t, sort_keys=True), (t, set()))[1].add(ver)
    for line in open(built["wire"][0]):
        r = json.loads(line)
        want(r["t"], r["ver"])
    for line in open(built["evo"][0]):
        r = json.loads(line)
        for d in r["ts"]:
            for ver in (0, 1, 2):
                want(d, ver)
    if replay:
        rec = json.load(open(replay))["record"]
        seen = {"x": (rec["t"], {rec["ver"]})}
    with open(req, "w") as o:
        for (t, vers) in seen.values():
            o.write(json.dumps({"t": t, "vers": sorted(vers)}) + "\n")
    obs = os.path.join(WORK, "c04_%s.obs" % tier)
    vlib.run_bin(binp, ["layouts", req, obs])
    observations = [json.loads(l) for l in open(obs)]
    for o in observations:
        if "tool_error" in o:
            raise ToolError("harness: " + o["tool_error"])
    r = vlib.run_tlc("Packed.tla", "Packed.cfg", "packed_" + tier, workers=8, timeout=3000,
                     extra_env={"OBS": obs}, java_opts="-Xss1g -Xmx12g")
    if r["violated"]:
        raise ToolError("Packed: unexpected TLC error (see %s)" % r["out"])
    verd = os.path.join(WORK, "c04_%s.verdicts" % tier)
    nver = vlib.printed_json(r["out"], verd)
    if nver != len(observations):
        raise ToolError("Packed trace validation judged %d of %d observations" % (nver, len(observations)))
    npacked = 0
    for line in open(verd):
        j = json.loads(line)
        o = observations[j["i"] - 1]
        if j["verdict"] == "ok-packed":
            npacked += 1
        if j["verdict"] not in ("ok-packed", "ok-not-packed"):
            v.report("c04.packed_not_truly_packed", {"t": o["t"], "ver": o["ver"]},
                     "%s v%d: real repr_c_optimization_safe = yes, but with the observed layout %s the memory image is not the "
                     "field-wise encoding" % (vlib.show(o["t"]), o["ver"], json.dumps(o["lt"])[:200]), o)
    # ---- (a) transparency: the bulk-capable records of the wire replay (bytes and loaded values) + call trace refinement
    evals = 0
    if not replay:
        recs = built["wire"][0]
        res = recs + ".res"
        vlib.run_bin_resilient(binp, ["replay"], recs, res, "c01.died", env={"WIRE_ALLMODES_EVERY": "1000000"})
        records = open(recs).read().splitlines()
        for line in open(res):
            rr = json.loads(line)
            rec = json.loads(records[rr["i"]])
            if not _bulk_relevant(rec["t"]):
                continue
            evals += 1
            for f in rr["fails"]:
                if f["check"].startswith("tool."):
                    raise ToolError("harness: %s" % f["check"])
                if f["check"] in ("c02.bytes", "c01.roundtrip.bare", "c01.load.bare", "c01.consumed.bare", "c02.specbytes.value",
                                  "c02.specbytes.load", "c02.specbytes.consumed", "c04.calls"):
                    v.report("c04." + f["check"], {"t": rec["t"], "ver": rec["ver"]},
                             "%s :: %s" % (vlib.show(rec["t"]), f["detail"]), rec)
    samples = [{"type": vlib.show(o["t"]), "ver": o["ver"], "real_packed": o["packed"], "observed_layout": o["lt"]}
               for o in observations if o["packed"] and o["t"]["k"] in ("struct", "enum", "tup")][:3]
    cov = {"states": r["stats"]["distinct"], "transitions": r["stats"]["generated"],
           "traces_validated_against_impl": len(observations),
           "evaluations": len(observations) + evals, "distinct_nontrivial": npacked,
           "rule": "one observation per (type definition, version): real packed answer + observed layout tree; non-trivial = the real code answers 'packed' (the implication packed => TrulyPacked is not vacuous)",
           "bulk_relevant_replays": evals, "samples": samples, "exhaustive": not replay,
           "explanation": "impl -> spec: TLC validates every recorded (type, version, REAL packed answer, OBSERVED layout) against "
                          "Packed.tla: packed => no padding, wire order, memory image = field-wise encoding at that version. "
                          "spec -> impl: bytes of Vec/array/boxed-slice/struct of every catalogue type equal the field-wise Enc and "
                          "load back element-wise (shared with C01/C02 replay), real write calls are concatenations of whole "
                          "primitive writes of the writer machine"}
    return v.finish("model_checking", cov, WIRE_ASSUME + [
        "layout of repr(Rust) types is observed (offset_of/size_of), never predicted; enum variant offsets follow from the explicit repr (RFC 2195)",
        "usize/isize are 8 bytes on this platform, identical to their wire form"])

# ------------------------------------------------------------------------------------------------
# C17: introspection
# ------------------------------------------------------------------------------------------------
@prop("C17")
def c17(p, tier, replay):
    v = Verdict(p, tier)
    built, binp = family_build(tier, ["wire"])
    intro_bin = vlib.cargo_build("intro")
    # ---- navigation: TLC explores Introspect.tla, every distinct (path, result) is replayed on the real Introspector
    recs = os.path.join(WORK, "intro_%s.ndjson" % tier)
    if replay and json.load(open(replay))["record"].get("hist") is not None:
        open(recs, "w").write(json.dumps(json.load(open(replay))["record"]) + "\n")
        stats = {"generated": 0, "distinct": 0}
    else:
        r = vlib.run_tlc("Introspect.tla", "Introspect_%s.cfg" % tier, "intro_" + tier, workers=8,
                         timeout=6000 if tier == "thorough" else 1500)
        if r["violated"]:
            raise ToolError("Introspect: TLC reports a violation in the specification itself (see %s)" % r["out"])
        stats = r["stats"]
        if vlib.printed_json(r["out"], recs) == 0:
            raise ToolError("Introspect produced no behaviours")
    res = recs + ".res"
    vlib.run_bin(intro_bin, ["replay", recs, res])
    records = open(recs).read().splitlines()
    nav = 0
    samples = []
    for line in open(res):
        rr = json.loads(line)
        nav += 1
        rec = None
        if rr["fails"] or len(samples) < 2:
            rec = json.loads(records[rr["i"]])
        if len(samples) < 2 and rec and len(rec["hist"]) >= 3 and rec["err"] == "":
            samples.append({"tree": rec["tree"], "limit": rec["limit"], "commands": rec["hist"], "frames": rec["frames"], "total_len": rec["total"]})
        for f in rr["fails"]:
            v.report(f["check"], {"t": None, "tree": rec["tree"]}, "limit=%s hist=%s :: %s" % (rec["limit"], json.dumps(rec["hist"]), f["detail"]), rec)
    # ---- reported length = fetchable children, on every value of the type catalogue
    lens = 0
    wrecs = built["wire"][0]
    if replay and json.load(open(replay))["record"].get("hist") is None:
        wrecs = os.path.join(WORK, "c17_replay.ndjson")
        open(wrecs, "w").write(json.dumps(json.load(open(replay))["record"]) + "\n")
    lres = os.path.join(WORK, "c17_%s.lens" % tier)
    vlib.run_bin(binp, ["introlen", wrecs, lres])
    wrecords = open(wrecs).read().splitlines()
    nontriv = set()
    for line in open(lres):
        rr = json.loads(line)
        lens += 1
        if rr["obs"] and rr["obs"]["children"] > 0:
            nontriv.add(rr["i"])
        for f in rr["fails"]:
            rec = json.loads(wrecords[rr["i"]])
            if f["check"].startswith("tool."):
                raise ToolError("harness: %s" % f["check"])
            v.report(f["check"], {"t": rec["t"]}, "%s :: %s" % (vlib.show(rec["t"]), f["detail"]), rec)
    # the trait's default introspect_len and arrays at large sizes (beyond what a TLC value can hold)
    big = os.path.join(WORK, "c17_%s.big" % tier)
    vlib.run_bin(intro_bin, ["lens", big])
    for line in open(big):
        rr = json.loads(line)
        lens += 1
        for f in rr["fails"]:
            v.report(f["check"], {"t": None}, f["detail"], rr)
    cov = {"states": stats["distinct"], "transitions": stats["generated"], "traces_validated_against_impl": nav,
           "evaluations": nav + lens, "distinct_nontrivial": nav + len(nontriv),
           "rule": "navigation: one behaviour per distinct (tree, limit, path, result) state of Introspect.tla reached by command "
                   "sequences of bounded length; length clause: one evaluation per (type, value) of the wire catalogue, non-trivial = the value has children",
           "samples": samples, "exhaustive": not replay,
           "explanation": "TLC explores the Introspector state machine (dive / do_introspect / total_index transcribed with natural-number "
                          "arithmetic) over abstract trees with duplicate keys, all four commands, depths, disambiguators, indices and "
                          "child limits, proving NoPanic, TotalIndexDense and TotalIndexIsWalk; every reached state is replayed on the real "
                          "Introspector (harness Node type) comparing Ok/Err kind, frames, num_frames, total_len and total_index(i)"}
    return v.finish("model_checking", cov, [
        "abstract trees: up to 3 children per node, depth <= 3, keys {a,b} with duplicates; command histories of bounded length (MaxHist)",
        "length clause is checked on the boundary values of the wire catalogue only"])


# ------------------------------------------------------------------------------------------------
# C06 malformed input, C07 truncation
# ------------------------------------------------------------------------------------------------
def mut_observe(tier, replay, select):
    """MutMC behaviours -> real reader -> observations -> MutTrace verdicts.  returns (stats, observations, verdict map)"""
    built, binp = family_build(tier, ["mut"])
    recs, stats = built["mut"]
    sel = os.path.join(WORK, "mut_%s.sel" % tier)
    if replay:
        open(sel, "w").write(json.dumps(json.load(open(replay))["record"]["input"]) + "\n")
        stats = {"generated": 0, "distinct": 0}
    else:
        with open(sel, "w") as o:
            for line in open(recs):
                if select(line):
                    o.write(line)
    res = sel + ".res"
    vlib.run_bin_resilient(binp, ["garbage"], sel, res, "died")
    inputs = open(sel).read().splitlines()
    obs_path = os.path.join(WORK, "mut_%s.obs" % tier)
    observations = []
    with open(obs_path, "w") as o:
        for line in open(res):
            rr = json.loads(line)
            rec = json.loads(inputs[rr["i"]])
            ob = rr["obs"] or {"real": "died", "msg": rr["fails"][0]["detail"], "rpos": 0, "reser": [], "oom": "alloc" in rr["fails"][0]["detail"]}
            if ob["real"] == "tool":
                raise ToolError("harness: " + ob["msg"])
            full = {"t": rec["t"], "ver": rec["ver"], "inp": rec["inp"], "mut": rec["mut"], "ok": rec["ok"], "err": rec["err"],
                    "pos": rec["pos"], "real": ob["real"], "msg": ob["msg"], "rpos": ob["rpos"], "reser": ob["reser"], "oom": ob["oom"]}
            observations.append(full)
            o.write(json.dumps(full) + "\n")
    r = vlib.run_tlc("MutTrace.tla", "MutTrace.cfg", "muttrace_" + tier, workers=8, timeout=3000,
                     extra_env={"OBS": obs_path}, java_opts="-Xss1g -Xmx12g")
    if r["violated"]:
        raise ToolError("MutTrace: unexpected TLC error (see %s)" % r["out"])
    rej = os.path.join(WORK, "mut_%s.rej" % tier)
    vlib.printed_json(r["out"], rej)
    verdicts = {}
    for line in open(rej):
        j = json.loads(line)
        verdicts[j["i"] - 1] = j["verdict"]
    return stats, r["stats"], observations, verdicts

def mut_check(prop_id, tier, replay, select, check_prefix, text, extra=None):
    v = Verdict(prop_id, tier)
    stats, tstats, observations, verdicts = mut_observe(tier, replay, select)
    nontrivial = set()
    for i, o in enumerate(observations):
        if o["mut"] != "none":
            nontrivial.add((json.dumps(o["t"], sort_keys=True), json.dumps(o["inp"])))
        if i in verdicts:
            v.report(check_prefix + verdicts[i].split(":")[0], {"t": o["t"], "mut": o["mut"], "inp": o["inp"], "msg": o["msg"]},
                     "%s input=%s (%s) spec=%s real=%s %s" % (vlib.show(o["t"]), o["inp"], o["mut"],
                        "ok" if o["ok"] else "err:" + o["err"], o["real"], o["msg"][:120]), {"input": {k: o[k] for k in ("t", "ver", "inp", "mut", "ok", "err", "pos")}, "observed": o})
    n_extra = 0
    if extra:
        n_extra = extra(v)
    samples = [{"type": vlib.show(o["t"]), "mutation": o["mut"], "input": o["inp"], "spec_outcome": "ok" if o["ok"] else o["err"], "real_outcome": o["real"]}
               for o in observations if o["mut"] in ("byte", "over8", "cut") and len(o["inp"]) > 4][:4]
    cov = {"states": stats["distinct"] + tstats["distinct"], "transitions": stats["generated"] + tstats["generated"],
           "traces_validated_against_impl": len(observations),
           "evaluations": len(observations) + n_extra, "distinct_nontrivial": len(nontrivial),
           "rule": "MutMC: subject type x up to 3 values x {every cut, every byte x 6 replacement values, every 8-byte window x 5 length patterns, "
                   "append} plus all byte strings of length <= 3 over {0,1,2,255}; non-trivial = the input differs from a valid encoding; distinct by (type, input)",
           "samples": samples, "exhaustive": not replay, "explanation": text}
    cov.update(getattr(v, "extra_cov", {}))
    return v.finish("model_checking", cov, WIRE_ASSUME + getattr(v, "extra_notes", []) + [
        "undefined behaviour without a functional symptom cannot be decided by the specification; it is OBSERVED: inputs the native run judged "
        "harmless are loaded again under the Miri interpreter for the subject types it can run (no sanitizer for the other types)",
        "allocation-failure aborts on absurd declared lengths are excused, as the property states"])

def _c06_schema_sections(tier, replay):
    """C06 'with a schema section': SchemaMut.tla generates malformed schema sections, the real Schema::deserialize runs on each,
    SchemaMutTrace.tla judges the observations"""
    def run(v):
        binp = vlib.cargo_build("schema")
        recs = os.path.join(WORK, "schemamut_%s.ndjson" % tier)
        if replay:
            open(recs, "w").write(json.dumps(json.load(open(replay))["record"]["input"]) + "\n")
        else:
            r = vlib.run_tlc("SchemaMut.tla", "SchemaMut.cfg", "schemamut_" + tier, workers=8, timeout=1500)
            if r["violated"]:
                raise ToolError("SchemaMut: TLC reports a violation in the specification itself (see %s)" % r["out"])
            if vlib.printed_json(r["out"], recs) == 0:
                raise ToolError("SchemaMut produced no behaviours")
        res = recs + ".res"
        vlib.run_bin(binp, ["garbage", recs, res])
        inputs = open(recs).read().splitlines()
        obs_path = os.path.join(WORK, "schemamut_%s.obs" % tier)
        observations = []
        with open(obs_path, "w") as o:
            for line in open(res):
                rr = json.loads(line)
                rec = json.loads(inputs[rr["i"]])
                full = dict(rec)
                full.update(rr["obs"])
                observations.append(full)
                o.write(json.dumps(full) + "\n")
        r = vlib.run_tlc("SchemaMutTrace.tla", "SchemaMutTrace.cfg", "schemamuttrace_" + tier, workers=8, timeout=1500,
                         extra_env={"OBS": obs_path}, java_opts="-Xss1g -Xmx8g")
        if r["violated"]:
            raise ToolError("SchemaMutTrace: unexpected TLC error (see %s)" % r["out"])
        rej = os.path.join(WORK, "schemamut_%s.rej" % tier)
        vlib.printed_json(r["out"], rej)
        for line in open(rej):
            j = json.loads(line)
            o = observations[j["i"] - 1]
            v.report("c06.schema." + j["verdict"], {"t": None, "inp": o["inp"]},
                     "schema section %s (%s): spec %s, real %s %s" % (o["inp"], o["mut"], "accepts" if o["ok"] else "rejects", o["real"], o["msg"][:160]),
                     {"kind": "schema-section", "input": {k: o[k] for k in ("inp", "mut", "ok", "pos", "known", "enc")}, "observed": o})
        return len(observations)
    return run

def _c06_deep(tier, v):
    """well-formed but deeply nested input for the recursive definitions (spec/Deep.tla)"""
    r = vlib.run_tlc("Deep.tla", "Deep.cfg", "deep", workers=1, timeout=600)
    if r["violated"]:
        raise ToolError("Deep: TLC reports a violation in the specification itself (see %s)" % r["out"])
    recs = os.path.join(WORK, "deep.ndjson")
    if vlib.printed_json(r["out"], recs) == 0:
        raise ToolError("Deep produced no behaviours")
    built, binp = family_build(tier, [])
    out = os.path.join(WORK, "deep_%s.out" % tier)
    depths = "0,1,2,3,10,1000,20000,100000" + (",1000000" if tier == "thorough" else "")
    vlib.run_bin(binp, ["deep", depths, out, recs])
    n = 0
    for line in open(out):
        o = json.loads(line)
        n += 1
        if "tool_error" in o:
            raise ToolError("harness: " + o["tool_error"])
        ob = o["obs"]
        t = {"k": "lib", "s": o["ty"], "n": 0, "ts": [], "fa": []}
        if ob["real"] in ("panic", "died"):
            v.report("c06.deep.died", {"t": t, "depth": o["depth"]},
                     "%s nested %d levels (%d bytes of well-formed input): %s %s" % (o["ty"], o["depth"], o["bytes"], ob["real"], ob["msg"][:120]), o)
        elif ob["real"] == "ok" and (ob["levels"] != o["depth"] + 1 or ob["rpos"] != o["bytes"]):
            v.report("c06.deep.wrong", {"t": t, "depth": o["depth"]},
                     "%s nested %d levels: loaded %d levels, consumed %d of %d bytes" % (o["ty"], o["depth"], ob["levels"], ob["rpos"], o["bytes"]), o)
    return n

def _c06_extras(tier):
    sections = _c06_schema_sections(tier, None)
    def run(v):
        n = sections(v)
        n += _c06_deep(tier, v)
        done, note = _c06_miri(tier, v)
        v.extra_cov = {"inputs_reloaded_under_miri": done}
        if note:
            v.extra_notes = [note]
        return n + done
    return run

MIRI_TYPES = {"u8", "u32", "bool", "char", "u128", "usize", "f32", "String", "Vec<u8>", "Vec<u32>", "Vec<String>", "Vec<bool>", "Vec<char>",
              "Vec<u16>", "Vec<Option<u8>>", "Vec<(u8,u16)>", "Vec<(u8,u8)>", "Vec<Vec<u8>>", "Vec<struct(C){u8,u8}>", "Vec<struct(C){u8,u32}>",
              "Vec<enum#u8{V|V}>", "VecDeque<u8>", "VecDeque<u32>", "BoxSlice<u8>", "BoxSlice<u32>", "SmallVec<u8>", "SmallVec<u32>",
              "ArrayVec<u8>", "ArrayVec<u32>", "[u8;3]", "[bool;3]", "[char;3]", "[u16;3]", "[String;3]", "Option<u8>", "Option<String>",
              "Box<String>", "(u8,String,u16)", "struct(C){bool,char}", "struct{u8,String,u32}"}

def _c06_miri(tier, v):
    """Undefined behaviour WITHOUT a functional symptom: inputs of MutMC that the native run judged harmless (verdict ok) are loaded again
    under the Miri interpreter (cargo +nightly miri), which stops at the first undefined behaviour; that input is a violation."""
    import subprocess
    obs_path = os.path.join(WORK, "mut_%s.obs" % tier)
    rej_path = os.path.join(WORK, "mut_%s.rej" % tier)
    bad = set(json.loads(l)["i"] - 1 for l in open(rej_path))
    per_type = 3 if tier == "quick" else 60        # (about a second per input under Miri)
    chosen, count = [], collections.Counter()
    for i, line in enumerate(open(obs_path)):
        o = json.loads(line)
        name = vlib.show(o["t"])
        # absurd declared lengths are the allocation-failure case of the native run; Miri would only reproduce the abort
        if name not in MIRI_TYPES or i in bad or o["err"] == "eof-or-alloc" or len(o["inp"]) > 64 or o["real"] not in ("ok", "err"):
            continue
        if count[name] >= per_type:
            continue
        count[name] += 1
        chosen.append((name, o))
    mdir = os.path.join(HARNESS, "miri")
    done, start, note = 0, 0, None
    for attempt in range(4):
        batch = chosen[start:]
        if not batch:
            break
        with open(os.path.join(mdir, "src", "inputs.rs"), "w") as f:
            f.write("// GENERATED by bin/checks.py (C06): inputs of spec/MutMC.tla that the native run judged harmless\n")
            f.write("pub static INPUTS: &[(&str, &[u8])] = &[\n")
            for (name, o) in batch:
                f.write("    (%s, &[%s]),\n" % (json.dumps(name), ", ".join(str(b) for b in o["inp"])))
            f.write("];\n")
        env = dict(os.environ, CARGO_NET_OFFLINE="true", MIRIFLAGS="-Zmiri-disable-isolation")
        env.pop("RUSTFLAGS", None)
        try:
            pr = subprocess.run(["cargo", "+nightly", "miri", "run", "--offline"], cwd=mdir, env=env, stdout=subprocess.PIPE, stderr=subprocess.PIPE,
                                timeout=3000 if tier == "quick" else 14000)
        except subprocess.TimeoutExpired:
            note = "the Miri run did not finish within its time budget after %d inputs" % done
            break
        out, err = pr.stdout.decode(errors="replace"), pr.stderr.decode(errors="replace")
        m = re.search(r"^DONE (\d+)", out, re.M)
        if m:
            done += len(batch)
            break
        ats = re.findall(r"^AT (\d+)", out, re.M)
        ub = re.search(r"error: (Undefined Behavior:[^\n]*|unsupported operation:[^\n]*|[^\n]*)", err)
        if not ats or "Undefined Behavior" not in err:
            note = "Miri is not usable here (%s): undefined behaviour without a functional symptom was not observed" % \
                (ub.group(1)[:160] if ub else (err.strip().splitlines() or ["no output"])[-1][:160])
            break
        k = int(ats[-1])
        name, o = batch[k]
        v.report("c06.miri." + ("invalid-value" if "invalid value" in ub.group(1) else "undefined-behaviour"),
                 {"t": o["t"], "mut": o["mut"], "inp": o["inp"], "msg": ub.group(1)},
                 "%s input=%s (%s): under Miri: %s" % (name, o["inp"], o["mut"], ub.group(1)[:200]),
                 {"input": {kk: o[kk] for kk in ("t", "ver", "inp", "mut", "ok", "err", "pos")}, "miri": ub.group(1)})
        done += k
        start += k + 1
    return done, note

@prop("C06")
def c06(p, tier, replay):
    if replay and json.load(open(replay))["record"].get("kind") == "schema-section":
        v = Verdict(p, tier)
        n = _c06_schema_sections(tier, replay)(v)
        return v.finish("model_checking", {"states": 0, "transitions": 0, "traces_validated_against_impl": n, "evaluations": n,
                                           "distinct_nontrivial": n, "rule": "replay of one recorded schema section", "exhaustive": False,
                                           "explanation": "replay"}, [])
    return mut_check(p, tier, replay, lambda line: True, "c06.",
        "TLC (MutMC) enumerates malformed inputs per subject type and fixes the format's outcome with the reader oracle; the REAL reader is "
        "run on each input and TLC (MutTrace) validates every observation: no panic / abort (except genuine allocation failure), nothing "
        "accepted that the format rejects, every returned value re-serialises to a canonical valid encoding no longer than the input; "
        "the same for malformed SCHEMA SECTIONS (SchemaMut / SchemaMutTrace: every cut, byte and length mutation of the sections of "
        "schema trees of every node kind, decoded by the real Schema::deserialize)",
        extra=None if replay else _c06_extras(tier))

def _c07_prefixes(tier):
    def run(v):
        built, binp = family_build(tier, ["wire"])
        recs = built["wire"][0]
        sel = os.path.join(WORK, "c07_%s.sel" % tier)
        step = 1 if tier == "thorough" else 7
        with open(sel, "w") as o:
            for n, line in enumerate(open(recs)):
                if n % step == 0 and len(line) < 6000:
                    o.write(line)
        res = sel + ".res"
        vlib.run_bin_resilient(binp, ["prefixes"], sel, res, "c07.prefix.died")
        records = open(sel).read().splitlines()
        cuts = 0
        for line in open(res):
            rr = json.loads(line)
            rec = json.loads(records[rr["i"]])
            cuts += (rr["obs"] or {}).get("cuts", 0)
            for f in rr["fails"]:
                if f["check"].startswith("tool."):
                    raise ToolError("harness: " + f["check"])
                v.report(f["check"], {"t": rec["t"]}, "%s :: %s" % (vlib.show(rec["t"]), f["detail"]), rec)
        # multi-block encrypted streams: the cuts on and around every block boundary (and the sampled ones) of the stream harness's
        # large subjects, loaded through CryptoReader without a compression layer in between
        sbin = vlib.cargo_build("stream")
        tout = os.path.join(WORK, "c07_%s_crypto.out" % tier)
        vlib.run_bin(sbin, ["tamper", tier, tout], timeout=6000)
        for line in open(tout):
            o = json.loads(line)
            if o["kind"] == "cut":
                v.report("c07.crypto.cut", {"t": None}, "encrypted stream of %s cut at byte %s: %s %s" % (o["subject"], o["pos"], o["result"], o.get("msg", "")[:120]), o)
            elif o["kind"] == "filecut":
                v.report("c07.crypto.filecut", {"t": None}, "load_encrypted_file on a file cut at byte %s: %s" % (o["pos"], o["result"]), o)
            elif o["kind"] in ("cuts_done", "filecuts_done"):
                cuts += o.get("cuts", o.get("n", 0))
        return cuts
    return run

@prop("C07")
def c07(p, tier, replay):
    return mut_check(p, tier, replay, lambda line: '"mut":"cut"' in line or '"mut":"none"' in line, "c07.payload.",
        "TLC proves on the model that every strict prefix of every encoding is rejected (WireMC!PrefixRejected, MutMC!CutRejected); every "
        "cut of MutMC is run on the real reader and validated by MutTrace; in addition every strict prefix of the real plain, schema-less, "
        "bzip2 and encrypted files of a sample of the wire catalogue is loaded: error, or (bzip2 trailer only) the equal value",
        extra=None if replay else _c07_prefixes(tier))

# ------------------------------------------------------------------------------------------------
# C13 schema persistence / comparison,  C11 by-reference rule (schema part)
# ------------------------------------------------------------------------------------------------
def schema_pipeline(tier, replay):
    binp = vlib.cargo_build("schema")
    recs = os.path.join(WORK, "schema_%s.ndjson" % tier)
    if replay:
        open(recs, "w").write(json.dumps(json.load(open(replay))["record"]) + "\n")
        stats = {"generated": 0, "distinct": 0}
    else:
        r = vlib.run_tlc("SchemaMC.tla", "SchemaMC_%s.cfg" % tier, "schemamc_" + tier, workers=8,
                         timeout=6000 if tier == "thorough" else 1500)
        if r["violated"]:
            raise ToolError("SchemaMC: TLC reports a violation in the specification itself (see %s)" % r["out"])
        stats = r["stats"]
        if vlib.printed_json(r["out"], recs) == 0:
            raise ToolError("SchemaMC produced no behaviours")
    res = recs + ".res"
    vlib.run_bin(binp, ["replay", recs, res])
    return stats, recs, res

def schema_check(prop_id, tier, replay, prefix, text, assumptions):
    v = Verdict(prop_id, tier)
    stats, recs, res = schema_pipeline(tier, replay)
    records = open(recs).read().splitlines()
    n, pairs, samples = 0, 0, []
    for line in open(res):
        rr = json.loads(line)
        rec = json.loads(records[rr["i"]])
        n += 1
        pairs += len(rec["pairs"])
        if len(samples) < 2 and rec["s"]["k"] in ("struct", "enum") and len(rec["pairs"]) > 3:
            samples.append({"schema": rec["s"], "format2_bytes": rec["e2"], "format0_bytes": rec["e0"],
                            "partners": [{"kind": p["kind"], "diff": p["diff"], "layout_compatible": p["lc"], "same_layout": p["sl"]} for p in rec["pairs"][:4]]})
        for f in rr["fails"]:
            if f["check"].startswith("tool."):
                raise ToolError("harness: %s %s" % (f["check"], f["detail"]))
            if f["check"].startswith(prefix):
                v.report(f["check"], {"t": None, "s": rec["s"]}, f["detail"], rec)
    cov = {"states": stats["distinct"], "transitions": stats["generated"], "traces_validated_against_impl": n,
           "evaluations": n + pairs, "distinct_nontrivial": pairs,
           "rule": "one behaviour per schema tree of the universe (all trees up to the size bound over the leaf / name / annotation alphabets); "
                   "non-trivial = (schema, partner) pairs, the partner being the schema itself, a single wire-altering mutant or a single layout-annotation mutant",
           "schemas": n, "samples": samples, "exhaustive": not replay, "explanation": text}
    return v.finish("model_checking", cov, assumptions)

@prop("C13")
def c13(p, tier, replay):
    return schema_check(p, tier, replay, "c13.",
        "TLC enumerates every schema tree of the universe and proves on the transcribed section format: SDec(SEnc(s,v),v)=s for v in {1,2}, "
        "SDec(SEnc(s,0),0)=StripLayout(s), Diff(s,s) reports nothing, every single wire-altering mutant is reported in both directions and "
        "layout-annotation mutants are not; replay: real Schema::serialize bytes = SEnc byte for byte at formats 1 and 2, real "
        "Schema::deserialize of the specification's bytes (formats 0, 1, 2) gives the expected tree, real diff_schema verdict = Diff on every pair",
        ["bounded universe of schema trees (spec/SchemaMC.tla Universe) incl. the trait / closure / future / uninit-slice nodes of savefile-abi; "
         "futures are excluded from the comparison clauses (diff_schema supports them in return position only)",
         "the format-0 writer no longer exists: format-0 bytes are produced by the specification from the reader's documented gates"])


# ------------------------------------------------------------------------------------------------
# C05: schema and header gate
# ------------------------------------------------------------------------------------------------
@prop("C05")
def c05(p, tier, replay):
    v = Verdict(p, tier)
    built, binp = family_build(tier, ["gate"])
    recs, stats = built["gate"]
    # ---- pairs
    res = recs + ".res"
    vlib.run_bin_resilient(binp, ["pairs"], recs, res, "c05.pair.died")
    records = {}
    for line in open(recs):
        r = json.loads(line)
        records[r["ia"]] = r
    npairs, classes = 0, collections.Counter()
    for r in records.values():
        classes.update(r["classes"])
        npairs += 2 * len(r["classes"])
    for line in open(res):
        rr = json.loads(line)
        ra = records.get(rr["i"])
        for f in rr["fails"]:
            if f["check"].startswith("tool."):
                raise ToolError("harness: %s %s" % (f["check"], f["detail"]))
            rb = records.get(f.get("ib"), {"t": ra["t"]})
            v.report(f["check"], {"t": ra["t"], "tb": rb["t"]},
                     "saved as %s, loaded as %s :: %s" % (vlib.show(ra["t"]), vlib.show(rb["t"]), f["detail"][:200]),
                     {"saved": ra["t"], "loaded": rb["t"], "value": ra["v"]})
    # ---- the converse clause across versions: files of program i (Evo model, mode up) pass the gate of program j >= i
    nevo = 0
    if not replay:
        ebuilt, _ = family_build(tier, ["evo"])
        erecs = ebuilt["evo"][0]
        sel = os.path.join(WORK, "evo_%s_c05.sel" % tier)
        with open(sel, "w") as o:
            for line in open(erecs):
                if '"mode":"up"' in line:
                    o.write(line)
        eres = sel + ".res"
        vlib.run_bin_resilient(binp, ["evo"], sel, eres, "c05.died")
        erecords = open(sel).read().splitlines()
        for line in open(eres):
            rr = json.loads(line)
            nevo += 1
            for f in rr["fails"]:
                if f["check"].startswith("tool."):
                    raise ToolError("harness: %s %s" % (f["check"], f["detail"][:200]))
                if f["check"].startswith("c05."):
                    rec = json.loads(erecords[rr["i"]])
                    v.report(f["check"], {"t": rec["d"], "i": rec["i"], "j": rec["j"]},
                             "%s written by program %d, loaded by program %d :: %s" % (vlib.show(rec["d"]), rec["i"], rec["j"], f["detail"][:200]), rec)
    # ---- header gate
    r = vlib.run_tlc("Container.tla", "Container.cfg", "container", workers=4, timeout=600)
    if r["violated"]:
        raise ToolError("Container: TLC reports a violation in the specification itself (see %s)" % r["out"])
    hrecs = os.path.join(WORK, "container.ndjson")
    nh = vlib.printed_json(r["out"], hrecs)
    hres = hrecs + ".res"
    vlib.run_bin(binp, ["headers", hrecs, hres])
    hrecords = open(hrecs).read().splitlines()
    for line in open(hres):
        rr = json.loads(line)
        for f in rr["fails"]:
            rec = json.loads(hrecords[rr["i"]])
            v.report(f["check"], {"t": None}, "%s :: %s" % (json.dumps(rec["file"]), f["detail"]), rec)
    samples = [{"saved": vlib.show(records[1]["t"]), "value": records[1]["v"],
                "loaded_as": [{"type": vlib.show(records[j + 1]["t"]), "class": c} for j, c in enumerate(records[1]["classes"][:6])]}]
    cov = {"states": (stats["distinct"] if stats else 0) + r["stats"]["distinct"],
           "transitions": (stats["generated"] if stats else 0) + r["stats"]["generated"],
           "traces_validated_against_impl": npairs + nh + nevo, "evaluations": npairs + nh + nevo,
           "evolved_files_through_the_gate": nevo,
           "distinct_nontrivial": sum(n for c, n in classes.items() if c != "accept"),
           "rule": "every ordered pair (type saved, type loaded) of the gate catalogue, classified by GateMC.tla as accept (same wire-relevant schema tree), "
                   "reject (different byte-level layout) or dontcare (same bytes, different grouping), replayed through the plain and the bzip2 container; "
                   "plus every behaviour of the header state machine Container.tla; non-trivial = pairs that are not 'accept'",
           "pair_classes": dict(classes), "samples": samples, "exhaustive": True,
           "explanation": "TLC proves GateFirst on the load_impl state machine (nothing is interpreted before magic, library version, data version and "
                          "schema comparison have passed) and, on the schemas of the gate catalogue, that the comparison accepts only byte-compatible "
                          "layouts (GateSound) and accepts identical trees (GateComplete); replay: real load::<Tb>(save::<Ta>(v)) must be Ok for 'accept', "
                          "Err(IncompatibleSchema) for 'reject', and must never panic; corrupted headers on real files give the model's error class "
                          "without the payload having been read"}
    return v.finish("model_checking", cov, WIRE_ASSUME + [
        "three-valued oracle: pairs that differ only by transparent grouping (1-field struct vs its field, array vs repeated fields, tuple nesting) "
        "are 'dontcare' - the property's two sentences do not decide them; they are only checked for absence of panics",
        "library format versions 0 and 1 are not produced by the current writer; their schema sections are covered by C13"])

# ------------------------------------------------------------------------------------------------
# C08: I/O faults and chunking (Stream.tla -> plans -> real save/load -> StreamTrace.tla)
# ------------------------------------------------------------------------------------------------
def stream_validate(obs_path, name):
    r = vlib.run_tlc("StreamTrace.tla", "StreamTrace.cfg", name, workers=8, timeout=3000,
                     extra_env={"OBS": obs_path}, java_opts="-Xss1g -Xmx12g")
    if r["violated"]:
        raise ToolError("StreamTrace: unexpected TLC error (see %s)" % r["out"])
    rej = obs_path + ".rej"
    vlib.printed_json(r["out"], rej)
    return r["stats"], {json.loads(l)["i"] - 1: json.loads(l)["verdict"] for l in open(rej)}

@prop("C08")
def c08(p, tier, replay):
    v = Verdict(p, tier)
    binp = vlib.cargo_build("stream")
    plans = os.path.join(WORK, "stream_%s.ndjson" % tier)
    if replay:
        rec = json.load(open(replay))["record"]
        open(plans, "w").write(json.dumps({"dir": rec["dir"], "plan": rec["plan"]}) + "\n")
        stats = {"generated": 0, "distinct": 0}
    else:
        r = vlib.run_tlc("StreamMC.tla", "StreamMC_%s.cfg" % tier, "streammc_" + tier, workers=8, timeout=3000)
        if r["violated"]:
            raise ToolError("StreamMC: TLC reports a violation in the specification itself (see %s)" % r["out"])
        stats = r["stats"]
        if vlib.printed_json(r["out"], plans) == 0:
            raise ToolError("StreamMC produced no plans")
    obs = os.path.join(WORK, "stream_%s.obs" % tier)
    vlib.run_bin(binp, ["plans", plans, obs])
    tstats, verdicts = stream_validate(obs, "streamtrace_" + tier)
    observations = [json.loads(l) for l in open(obs)]
    for i, why in sorted(verdicts.items()):
        o = observations[i]
        v.report("c08.trace." + why.split(":")[0].replace(" ", "_")[:40], {"t": None, "mode": o["mode"], "dir": o["dir"]},
                 "%s %s %s plan=%s :: %s" % (o["dir"], o["subject"], o["mode"], json.dumps([a["a"] for a in o["plan"]]), why), o)
    nplan = len(observations)
    # fault enumeration on the real byte offsets, 1-byte / half chunking, interrupt before every call
    off = os.path.join(WORK, "stream_%s.offsets" % tier)
    noff = 0
    if not replay:
        vlib.run_bin(binp, ["offsets", off, tier], timeout=6000)
        ostats, overd = stream_validate(off, "streamoffs_" + tier)
        offobs = [json.loads(l) for l in open(off)]
        noff = len(offobs)
        for i, why in sorted(overd.items()):
            o = offobs[i]
            v.report("c08.offsets." + why.split(":")[0].replace(" ", "_")[:40], {"t": None, "mode": o["mode"], "dir": o["dir"]},
                     "%s %s %s plan=%s :: %s" % (o["dir"], o["subject"], o["mode"], json.dumps(o["plan"]), why), o)
        tstats = {"distinct": tstats["distinct"] + ostats["distinct"], "generated": tstats["generated"] + ostats["generated"]}
    samples = [{"dir": o["dir"], "subject": o["subject"], "container": o["mode"], "plan": [a["a"] for a in o["plan"]],
                "events": o["events"]["head"][:6], "result": o["result"]} for o in observations if len(o["plan"]) >= 4][:3]
    cov = {"states": stats["distinct"] + tstats["distinct"], "transitions": stats["generated"] + tstats["generated"],
           "traces_validated_against_impl": nplan + noff, "evaluations": nplan + noff,
           "distinct_nontrivial": len([o for o in observations if any(a["a"] != "All" for a in o["plan"])]) + noff,
           "rule": "every terminal behaviour of StreamMC (all environment schedules of All/One/Half/Intr/Fail(kind)/Zero/FailFlush up to MaxPlan actions) as a fault "
                   "plan x 2 subjects x 5 containers x {save, load}; plus every byte offset of the real streams x 4 error kinds, 1-byte and half chunking, an "
                   "interrupt before every call; non-trivial = the plan contains something other than 'accept all'",
           "samples": samples, "exhaustive": not replay,
           "explanation": "TLC explores Stream.tla (write_all / read_exact loops against an adversarial environment) and proves AcceptedIsPrefix, FaultSurfaces, "
                          "ChunkIndependent and (liveness) Terminates; each behaviour is a fault plan executed by the instrumented Write/Read against the real "
                          "save / load; the recorded I/O event traces are validated by TLC against StreamTrace.tla (interrupted calls retried, faults surface "
                          "as errors, no error without a fault, accepted bytes a prefix of the fault-free output, no panic, no hang)"}
    return v.finish("model_checking", cov, [
        "the accepted-prefix clause is evaluated at the first reported failure (a Drop that afterwards tries to finish the stream is not forbidden by the property)",
        "encrypted streams use a random nonce: their prefix clause is checked by decrypting what was accepted and comparing with the plain stream",
        "hang = more than 5,000,000 I/O calls in one save/load"])

# ------------------------------------------------------------------------------------------------
# C14: encrypted files load only when intact and with the right password
# ------------------------------------------------------------------------------------------------
@prop("C14")
def c14(p, tier, replay):
    v = Verdict(p, tier)
    r = vlib.run_tlc("CryptoFrame.tla", "CryptoFrame_%s.cfg" % tier, "cryptoframe_" + tier, workers=4, timeout=1200, coverage=True)
    if r["violated"]:
        raise ToolError("CryptoFrame: TLC reports a violation in the specification itself (see %s)" % r["out"])
    zero = vlib.coverage_zero_actions(r["text"], ["ReadNonce", "Deliver", "Finish", "NextChunk"])
    if zero:
        raise ToolError("CryptoFrame: actions never taken (vacuous): %s" % zero)
    binp = vlib.cargo_build("stream")
    out = os.path.join(WORK, "c14_%s.out" % tier)
    vlib.run_bin(binp, ["tamper", tier, out], timeout=6000)
    evals, nontrivial = 0, 0
    samples = []
    for line in open(out):
        o = json.loads(line)
        k = o["kind"]
        if k == "frame":
            # binding: the real file has exactly the framing the model describes
            if not o["ends_exactly"]:
                v.report("c14.framing", {"t": None}, "real encrypted stream of %s is not nonce + {len, body}*: %s" % (o["subject"], o), o)
            samples.append({"subject": o["subject"], "file_len": o["len"], "chunks(offset,len)": o["chunks"]})
        elif k == "intact":
            evals += 1
            if o["result"] != "ok-same":
                v.report("c14.intact", {"t": None}, "intact file of %s does not load: %s" % (o["subject"], o["result"]), o)
        elif k in ("flip", "cut", "wrongkey", "wrongpassword", "filecut"):
            v.report("c14." + k, {"t": None}, "%s" % json.dumps(o)[:300], o)
        elif k == "flips_done":
            evals += o["positions"] * o["values"]; nontrivial += o["positions"] * o["values"]
        elif k == "cuts_done":
            evals += o["cuts"]; nontrivial += o["cuts"]
        elif k == "passwords_done":
            evals += o["n"]; nontrivial += o["n"]
        elif k == "filecuts_done":
            evals += o["n"]; nontrivial += o["n"]
        elif k == "rightpassword":
            if o["result"] != "ok-same":
                v.report("c14.rightpassword", {"t": None}, "file does not load with its own password: %s" % o["result"], o)
    cov = {"states": r["stats"]["distinct"], "transitions": r["stats"]["generated"], "traces_validated_against_impl": evals,
           "evaluations": evals, "distinct_nontrivial": nontrivial,
           "rule": "model: every single-cell modification (every value for a length field), every truncation offset, wrong key, over a multi-chunk framing; "
                   "real files: every byte position x replacement values of a small file, all framing regions and sampled body positions of a 3-chunk "
                   "file, every truncation length, wrong keys / passwords incl. prefix and suffix variants, load_encrypted_file on every file prefix",
           "samples": samples, "exhaustive": True,
           "explanation": "TLC proves TamperRejected on CryptoFrame.tla (CryptoReader framing state machine with an ideal AEAD): no modification, truncation or "
                          "other key reaches Done; the real encrypted files are checked to have exactly that framing and every enumerated tampering is "
                          "loaded with the real CryptoReader / load_encrypted_file: always an error, never a value, never a panic"}
    return v.finish("model_checking", cov, [
        "AES-256-GCM of `ring` is an ideal AEAD (forgery probability 2^-128 treated as 0)",
        "the nonce is random per file: tampering is enumerated on freshly written files"])

# ------------------------------------------------------------------------------------------------
# C10 version tolerance, C11 by-reference passing  (AbiVer.tla -> generated interface families -> real connections)
# ------------------------------------------------------------------------------------------------
def abiver_pipeline(tier, replay):
    recs = os.path.join(WORK, "abiver_%s.ndjson" % tier)
    r = vlib.run_tlc("AbiVer.tla", "AbiVer_%s.cfg" % tier, "abiver_" + tier, workers=8, timeout=3000)
    if r["violated"]:
        raise ToolError("AbiVer: TLC reports a violation in the specification itself (see %s)" % r["out"])
    if vlib.printed_json(r["out"], recs) == 0:
        raise ToolError("AbiVer produced no behaviours")
    binp = abi_build(tier, recs, None)
    sel = recs
    if replay:
        rec = json.load(open(replay))["record"]
        sel = os.path.join(WORK, "abiver_replay.ndjson")
        with open(sel, "w") as o:
            for line in open(recs):
                if '"kind":"family"' in line:
                    o.write(line)
            o.write(json.dumps(rec) + "\n")
    res = sel + ".res"
    vlib.run_bin(binp, ["replay", sel, res])
    return r["stats"], sel, res

def abi_build(tier, abiver_recs, ledger_recs):
    """the generated ABI crate is built from the union of the AbiVer families and the Ledger revisions (whichever model
    is not being checked contributes its last output, or is run now if it has none)"""
    a = abiver_recs or os.path.join(WORK, "abiver_%s.ndjson" % tier)
    l = ledger_recs or os.path.join(WORK, "ledger.ndjson")
    if not os.path.exists(a):
        r = vlib.run_tlc("AbiVer.tla", "AbiVer_%s.cfg" % tier, "abiver_" + tier, workers=8, timeout=3000)
        vlib.printed_json(r["out"], a)
    if not os.path.exists(l):
        r = vlib.run_tlc("Ledger.tla", "Ledger.cfg", "ledger", workers=4, timeout=1200)
        vlib.printed_json(r["out"], l)
    p = subprocess_run([sys.executable, os.path.join(vlib.ROOT, "gen", "gen_abi.py"), os.path.join(HARNESS, "genabi"), a, l])
    log("[gen] abi %s" % p)
    return vlib.cargo_build("abi")

def subprocess_run(cmd):
    import subprocess
    p = subprocess.run(cmd, stdout=subprocess.PIPE, stderr=subprocess.PIPE)
    if p.returncode != 0:
        sys.stderr.write(p.stderr.decode())
        raise ToolError("%s failed" % cmd[1])
    return p.stdout.decode().strip()

@prop("C10")
def c10(p, tier, replay):
    v = Verdict(p, tier)
    stats, recs, res = abiver_pipeline(tier, replay)
    records = open(recs).read().splitlines()
    n, nontrivial, samples = 0, 0, []
    for line in open(res):
        rr = json.loads(line)
        if rr["kind"] != "result":
            continue
        rec = json.loads(records[rr["i"]])
        n += 1
        if rec["i"] != rec["j"]:
            nontrivial += 1
        if len(samples) < 3 and rec["i"] != rec["j"] and rec["outcome"] == "returned" and rec["method"] in ("mid", "rem", "echo"):
            samples.append({k: rec[k] for k in ("fam", "i", "j", "eff", "method", "args", "seen", "ret", "got")})
        for f in rr["fails"]:
            if f["check"].startswith("tool."):
                raise ToolError("harness: %s %s" % (f["check"], f["detail"]))
            v.report(f["check"], {"t": None}, "family %s caller v%s implementation v%s method %s :: %s" % (
                rec["fam"], rec["i"], rec["j"], rec["method"], f["detail"][:300]), rec)
    cov = {"states": stats["distinct"], "transitions": stats["generated"], "traces_validated_against_impl": n,
           "evaluations": n, "distinct_nontrivial": nontrivial,
           "rule": "every behaviour of AbiVer.tla: interface family x (caller version i, implementation version j) x method x argument choice x returned value; "
                   "non-trivial = i != j",
           "samples": samples, "exhaustive": not replay,
           "explanation": "TLC explores the negotiation and call protocol over interface families evolved by the documented rules (fields added at the end and in "
                          "the middle, AbiRemoved fields, appended variants, methods added and removed, incompatible signature changes) for all ordered version "
                          "pairs and proves EffectiveIsMin, ArgTransparent / RetTransparent against the Down/Load oracles, MissingMethodConnects, "
                          "MissingPanicsAtCall and IncompatibleRejected; every behaviour is replayed with generated traits: a version-i AbiConnection joined to a "
                          "version-j logging implementation, comparing connect result, observed arguments, received return value and the missing-method panic"}
    return v.finish("model_checking", cov, EVO_ASSUME + [
        "both sides are compiled in one process and joined with from_boxed_trait_for_test (a second compiler version is not available offline)",
        "argument values are restricted to enum variants that exist at the negotiated version (documented panic otherwise)"])

@prop("C11")
def c11(p, tier, replay):
    v = Verdict(p, tier)
    # ---- schema part: LayoutCompat => SameLayout on the schema universe, real layout_compatible replayed
    if replay and "pairs" in json.load(open(replay))["record"]:
        sstats, srecs, sres = schema_pipeline(tier, replay)
    else:
        sstats, srecs, sres = schema_pipeline(tier, None)
    srecords = open(srecs).read().splitlines()
    npairs = 0
    for line in open(sres):
        rr = json.loads(line)
        rec = json.loads(srecords[rr["i"]])
        npairs += len(rec["pairs"])
        for f in rr["fails"]:
            if f["check"].startswith("c11.layout.unsound") or f["check"].startswith("c11.layout.panic"):
                v.report(f["check"], {"t": None}, f["detail"], rec)
    # ---- connection part: real by-reference decisions validated by TLC, transparency replayed
    stats, recs, res = abiver_pipeline(tier, None)
    obs = os.path.join(WORK, "c11_%s.obs" % tier)
    masks = []
    records = open(recs).read().splitlines()
    with open(obs, "w") as o:
        for line in open(res):
            rr = json.loads(line)
            if rr["kind"] == "mask":
                masks.append(rr)
                o.write(json.dumps(rr) + "\n")
            elif rr["kind"] == "result":
                rec = json.loads(records[rr["i"]])
                for f in rr["fails"]:
                    if f["check"] in ("c10.args", "c10.ret", "c10.call.panic"):
                        v.report("c11." + f["check"], {"t": None}, "family %s caller v%s implementation v%s method %s :: %s" % (
                            rec["fam"], rec["i"], rec["j"], rec["method"], f["detail"][:300]), rec)
    # ---- a SEPARATELY COMPILED implementation: the plugin cdylib built by the stable compiler and by the nightly compiler with
    #      -Zrandomize-layout (another compiler, other struct layouts); decisions go to AbiTrace, observed values are compared
    xnote, xlabels, xdiffer = None, [], 0
    if not replay:
        import subprocess
        binp = vlib.cargo_build("abi")
        vlib.cargo_build("plugin")
        tdir = os.environ.get("CARGO_TARGET_DIR", os.path.join(HARNESS, "target"))
        plugins = [("stable", os.path.join(tdir, "debug", "libplugin.so"))]
        for lseed in ((1,) if tier == "quick" else (1, 2, 3)):
            ndir = tdir + "_nightly_%d" % lseed
            env = dict(os.environ, CARGO_TARGET_DIR=ndir, CARGO_NET_OFFLINE="true",
                       RUSTFLAGS="-Zrandomize-layout -Zlayout-seed=%d --cfg avl_savefile_verif --check-cfg cfg(avl_savefile_verif)" % lseed)
            env.pop("CARGO_BUILD_JOBS", None)
            pr = subprocess.run(["cargo", "+nightly", "build", "--offline", "-p", "plugin"], cwd=HARNESS, env=env,
                                stdout=subprocess.PIPE, stderr=subprocess.STDOUT, timeout=3000)
            if pr.returncode != 0:
                xnote = "the nightly -Zrandomize-layout build of the plugin is not available here (%s): only the stable-built cdylib was used" % \
                    pr.stdout.decode(errors="replace").strip().splitlines()[-1][:160]
                break
            plugins.append(("nightly-randomized-layout-seed-%d" % lseed, os.path.join(ndir, "debug", "libplugin.so")))
        for (label, path) in plugins:
            xo = os.path.join(WORK, "c11_x_%s.json" % label)
            subprocess.run([binp, "xcompile", path, label, xo], cwd=WORK, timeout=300, stdout=subprocess.PIPE, stderr=subprocess.PIPE,
                           env=dict(os.environ, RUST_BACKTRACE="0"))
            if not os.path.exists(xo):
                v.report("c11.xcompile.died", {"t": None}, "the run against the %s implementation produced no result" % label, {"label": label})
                continue
            xlabels.append(label)
            with open(obs, "a") as o:
                for line in open(xo):
                    rr = json.loads(line)
                    if rr["kind"] == "mask":
                        masks.append(rr)
                        o.write(json.dumps({k: rr[k] for k in ("arg", "fam", "i", "j", "kind", "method", "passable", "sa", "sb")}) + "\n")
                        xdiffer += 1 if rr["layout_differs"] and rr["method"] == "rust_rec" else 0
                    else:
                        v.report(rr["check"], {"t": None}, "%s implementation :: %s" % (label, rr["detail"][:300]), rr)
    r = vlib.run_tlc("AbiTrace.tla", "AbiTrace.cfg", "abitrace_" + tier, workers=4, timeout=1200, extra_env={"OBS": obs}, java_opts="-Xss1g")
    if r["violated"]:
        raise ToolError("AbiTrace: unexpected TLC error (see %s)" % r["out"])
    verd = obs + ".verdicts"
    vlib.printed_json(r["out"], verd)
    byref = 0
    for line in open(verd):
        j = json.loads(line)
        m = masks[j["i"] - 1]
        if j["verdict"] == "ok-by-reference":
            byref += 1
        if not j["verdict"].startswith("ok"):
            v.report("c11.mask", {"t": None}, "%s caller v%s implementation v%s method %s arg %s passed by reference, schemas %s / %s" % (
                m.get("label", "family %s" % m["fam"]), m["i"], m["j"], m["method"], m["arg"], json.dumps(m["sa"])[:150], json.dumps(m["sb"])[:150]), m)
    samples = [{k: m[k] for k in ("fam", "i", "j", "method", "arg", "passable")} for m in masks if m["i"] != m["j"]][:4]
    cov = {"states": sstats["distinct"] + stats["distinct"] + r["stats"]["distinct"],
           "transitions": sstats["generated"] + stats["generated"] + r["stats"]["generated"],
           "traces_validated_against_impl": len(masks) + npairs, "evaluations": len(masks) + npairs, "distinct_nontrivial": byref + npairs,
           "rule": "schema pairs: every schema of the SchemaMC universe with itself, each single wire mutant and each single layout-annotation mutant; "
                   "connections: every (family, i, j, method, argument) of the AbiVer model; non-trivial = arguments really passed by reference, and all schema pairs",
           "by_reference_arguments": byref, "separately_compiled_implementations": xlabels,
           "implementations_whose_repr_rust_layout_differs_from_the_callers": xdiffer, "samples": samples, "exhaustive": True,
           "explanation": "TLC proves LayoutCompat => SameLayout and LayoutReflexive over the schema universe (sizes, alignments, offsets, discriminant width, "
                          "explicit repr, Vec/String layout, nothing unknown) and the real Schema::layout_compatible is replayed on every pair; for real connections "
                          "between interface versions the REAL get_arg_passable_by_ref decision and the REAL native schemas are recorded and TLC (AbiTrace) validates "
                          "decision => SameLayout; the AbiVer replay shows the values observed by the implementation are those of the model whichever way they travel"}
    return v.finish("model_checking", cov, ([xnote] if xnote else []) + [
        "separately compiled peers: distinct type definitions in one build (all interface versions) and one interface served by a cdylib that is built "
        "by the stable compiler and by the nightly compiler with -Zrandomize-layout (quick: one layout seed, thorough: three)",
        "pointer kinds (Box, reference, slice) are transparent for the layout rule, as in the implementation: what is compared is the pointee"])


# ------------------------------------------------------------------------------------------------
# C15: the ABI compatibility ledger
# ------------------------------------------------------------------------------------------------
@prop("C15")
def c15(p, tier, replay):
    v = Verdict(p, tier)
    recs = os.path.join(WORK, "ledger.ndjson")
    r = vlib.run_tlc("Ledger.tla", "Ledger.cfg", "ledger", workers=4, timeout=1200, coverage=True)
    if r["violated"]:
        raise ToolError("Ledger: TLC reports a violation in the specification itself (see %s)" % r["out"])
    zero = vlib.coverage_zero_actions(r["text"], ["StartRun", "Verify", "Create", "EndRun"])
    if zero:
        raise ToolError("Ledger: actions never taken: %s" % zero)
    vlib.printed_json(r["out"], recs)
    binp = abi_build(tier, None, recs)
    sel = recs
    if replay:
        sel = os.path.join(WORK, "ledger_replay.ndjson")
        open(sel, "w").write(json.dumps(json.load(open(replay))["record"]) + "\n")
    res = sel + ".res"
    vlib.run_bin(binp, ["ledger", sel, res])
    records = open(sel).read().splitlines()
    n, nontrivial, samples = 0, 0, []
    for line in open(res):
        rr = json.loads(line)
        rec = json.loads(records[rr["i"]])
        n += 1
        if len(rec["runs"]) > 1:
            nontrivial += 1
        if len(samples) < 4 and len(rec["runs"]) == 3:
            samples.append({"runs": rec["runs"], "results": rec["results"], "files": rec["files"]})
        for f in rr["fails"]:
            v.report(f["check"], {"t": None, "runs": rec["runs"]}, "history %s :: %s" % (rec["runs"], f["detail"]), rec)
    cov = {"states": r["stats"]["distinct"], "transitions": r["stats"]["generated"], "traces_validated_against_impl": n,
           "evaluations": n, "distinct_nontrivial": nontrivial,
           "rule": "every chain of <= 3 runs over revisions related by identity, compatible evolution (new method, new versioned field, new enum variant, "
                   "async interface) or a breaking change (method removed, argument count / argument type / return type changed, field added without a "
                   "version); non-trivial = more than one run",
           "samples": samples, "exhaustive": not replay,
           "explanation": "TLC explores Ledger.tla (per-version Verify-or-Create over a directory) and proves FirstRunOk, SecondRunOk, CompatibleEvolutionOk and "
                          "BreakingChangeRejected for every chain; each chain is replayed with generated revisions of one exported trait through the real "
                          "savefile_abi::verify_compatiblity on a fresh directory, comparing Ok/Err of every run and the set of files left behind"}
    return v.finish("model_checking", cov, ["bounded universe of 10 revisions and chains of <= 3 runs", "directories start empty; 'populated' is reached by earlier runs of the chain"])

# ------------------------------------------------------------------------------------------------
# C09: ABI calls are transparent
# ------------------------------------------------------------------------------------------------
@prop("C09")
def c09(p, tier, replay):
    v = Verdict(p, tier)
    recs = os.path.join(WORK, "abicall_%s.ndjson" % tier)
    if replay:
        open(recs, "w").write(json.dumps(json.load(open(replay))["record"]) + "\n")
        stats = {"generated": 0, "distinct": 0}
    else:
        r = vlib.run_tlc("AbiCall.tla", "AbiCall_%s.cfg" % tier, "abicall_" + tier, workers=8, timeout=3000)
        if r["violated"]:
            raise ToolError("AbiCall: TLC reports a violation in the specification itself (see %s)" % r["out"])
        stats = r["stats"]
        if vlib.printed_json(r["out"], recs) == 0:
            raise ToolError("AbiCall produced no behaviours")
    binp = abi_build(tier, None, None)
    res = recs + ".res"
    vlib.run_bin(binp, ["calls", recs, res])
    records = open(recs).read().splitlines()
    n, nontrivial, samples, bufkinds = 0, 0, [], collections.Counter()
    for line in open(res):
        rr = json.loads(line)
        rec = json.loads(records[rr["i"]]) if rr["i"] >= 0 else {"calls": [{"m": "66-method interface", "x": 0, "buf": ""}]}
        n += 1
        if len(rec["calls"]) >= 2:
            nontrivial += 1
        for c in rec["calls"]:
            bufkinds[c["buf"]] += 1
        if len(samples) < 3 and len(rec["calls"]) >= 2 and any(c["m"] in ("make_obj", "boxed_fn") for c in rec["calls"]):
            samples.append(rec)
        for f in rr["fails"]:
            v.report(f["check"], {"t": None}, "calls %s :: %s" % ([(c["m"], c["x"]) for c in rec["calls"]], f["detail"][:300]), rec)
    # ---- memory safety of the trampolines: a sample of the behaviours is replayed again under the Miri interpreter
    nmiri, mnote = 0, None
    if not replay:
        import subprocess
        want = 25 if tier == "quick" else 200
        interesting = [i for i, l in enumerate(records) if any(k in l for k in ('"fut"', '"hold_fut"', '"take_obj"', '"boxed_fn"', '"panic_', '"callfnmut"', '"join"'))]
        step = max(1, len(interesting) // want)
        pick = interesting[::step][:want]
        mrecs = os.path.join(WORK, "abicall_%s_miri.ndjson" % tier)
        with open(mrecs, "w") as o:
            for i in pick:
                o.write(records[i] + "\n")
        mres = mrecs + ".res"
        if os.path.exists(mres):
            os.remove(mres)
        env = dict(os.environ, CARGO_NET_OFFLINE="true", MIRIFLAGS="-Zmiri-disable-isolation", RUST_BACKTRACE="0")
        try:
            pr = subprocess.run(["cargo", "+nightly", "miri", "run", "--offline", "-p", "abi", "--", "calls", mrecs, mres], cwd=HARNESS, env=env,
                                stdout=subprocess.PIPE, stderr=subprocess.PIPE, timeout=3000 if tier == "quick" else 12000)
            err = pr.stderr.decode(errors="replace")
            got = [json.loads(l) for l in open(mres)] if os.path.exists(mres) else []
            nmiri = sum(1 for g in got if g["i"] >= 0)
            for g in got:
                for f in g["fails"]:
                    rec = json.loads(records[pick[g["i"]]]) if g["i"] >= 0 else {"calls": []}
                    v.report("c09.miri." + f["check"], {"t": None}, "under Miri: calls %s :: %s" % ([(c["m"], c["x"]) for c in rec["calls"]], f["detail"][:300]), rec)
            if "Undefined Behavior" in err:
                ub = re.search(r"error: (Undefined Behavior:[^\n]*)", err).group(1)
                rec = json.loads(records[pick[nmiri]]) if nmiri < len(pick) else {"calls": [{"m": "wide / many-argument interfaces", "x": 0}]}
                v.report("c09.miri.undefined-behaviour", {"t": None}, "under Miri: calls %s :: %s" % ([(c["m"], c["x"]) for c in rec["calls"]], ub[:300]), rec)
            elif pr.returncode != 0 and not got:
                mnote = "Miri is not usable here (%s): the trampolines' memory safety was observed through functional symptoms only" % \
                    (err.strip().splitlines() or ["no output"])[-1][:160]
        except subprocess.TimeoutExpired:
            mnote = "the Miri replay did not finish within its time budget"
    cov = {"states": stats["distinct"], "transitions": stats["generated"], "traces_validated_against_impl": 2 * n,
           "evaluations": 2 * n, "distinct_nontrivial": nontrivial, "behaviours_replayed_under_miri": nmiri,
           "rule": "every call sequence of AbiCall.tla up to MaxCalls calls over the menu (plain by-value / &str / slice / Vec<u8> of sizes straddling the 64-byte "
                   "inline buffer / Result, boxed trait objects in both directions, &dyn Fn, &mut dyn FnMut, returned boxed closure, literal and formatted "
                   "panics), each executed directly and through an AbiConnection; non-trivial = at least two calls",
           "argument_buffer_kinds": dict(bufkinds), "samples": samples, "exhaustive": not replay,
           "explanation": "TLC explores the call / ownership model (log of what the implementation observes, results the caller receives, owner and drop count of "
                          "every object) proving DropExactlyOnce, HeldAlive and OneResultPerCall; each behaviour is executed twice on the real code - directly on "
                          "the implementation and through AbiConnection::from_boxed_trait - and both executions must produce the model's log, results (incl. the "
                          "panic message) and exactly one drop per object; plus an interface with 66 methods"}
    return v.finish("model_checking", cov, ([mnote] if mnote else []) + [
        "caller and implementation live in one process (C11 and C16 use a separately linked cdylib)",
        "memory safety of the generated trampolines is observed, not decided: functional symptoms (results, drop counts) for every behaviour, and the Miri "
        "interpreter (undefined behaviour, leaks of the replay itself excluded) for a sample of them incl. the 66-method and 64-argument interfaces"])

# ------------------------------------------------------------------------------------------------
# C16: concurrent creation and use of connections
# ------------------------------------------------------------------------------------------------
@prop("C16")
def c16(p, tier, replay):
    import subprocess
    v = Verdict(p, tier)
    r = vlib.run_tlc("CacheMC.tla", "CacheMC_%s.cfg" % tier, "cachemc_" + tier, workers=8, timeout=6000, coverage=True)
    if r["violated"]:
        raise ToolError("Cache: TLC reports a violation (deadlock, invariant or liveness) in the specification itself (see %s)" % r["out"])
    zero = vlib.coverage_zero_actions(r["text"], ["LockE", "LockL", "Symbol", "LockT", "Hit", "Miss", "InterrogateVersion", "InterrogateMethods",
                                                   "Insert", "UnlockT", "CallEnd"])
    if zero:
        raise ToolError("Cache: actions never taken: %s" % zero)
    binp = abi_build(tier, None, None)
    vlib.cargo_build("plugin")
    tdir = os.environ.get("CARGO_TARGET_DIR", os.path.join(HARNESS, "target"))
    plugin = os.path.join(tdir, "debug", "libplugin.so")
    obs = os.path.join(WORK, "cache_%s.obs" % tier)
    if os.path.exists(obs):
        os.remove(obs)
    base = vlib.seed() * 100000
    runs = [(base + n, th) for n in range(40 if tier == "quick" else 300) for th in ((4,) if tier == "quick" else (2, 4, 8))]
    if replay:
        rec = json.load(open(replay))["record"]
        runs = [(rec["seed"], rec["threads"])] * 20
    for (sd, th) in runs:
        pr = subprocess.run([binp, "cache", str(sd), str(th), plugin, obs], cwd=WORK, timeout=120,
                            stdout=subprocess.PIPE, stderr=subprocess.PIPE, env=dict(os.environ, RUST_BACKTRACE="0"))
        if pr.returncode != 0:
            with open(obs, "a") as o:
                o.write(json.dumps({"seed": sd, "threads": th, "events": [], "hung": True, "results_ok": False,
                                    "died": "process exited with %s: %s" % (pr.returncode, pr.stderr.decode(errors="replace")[-200:])}) + "\n")
    observations = [json.loads(l) for l in open(obs)]
    t = vlib.run_tlc("CacheTrace.tla", "CacheTrace.cfg", "cachetrace_" + tier, workers=8, timeout=3000, extra_env={"OBS": obs}, java_opts="-Xss1g -Xmx8g")
    if t["violated"]:
        raise ToolError("CacheTrace: unexpected TLC error (see %s)" % t["out"])
    rej = obs + ".rej"
    vlib.printed_json(t["out"], rej)
    for line in open(rej):
        j = json.loads(line)
        o = observations[j["i"] - 1]
        v.report("c16.trace", {"t": None}, "seed %s, %s threads :: %s %s" % (o["seed"], o["threads"], j["verdict"], o.get("died", "")),
                 {"seed": o["seed"], "threads": o["threads"], "events": o["events"][:400]})
    # ---- spec -> impl: behaviours of the model as schedules forced on the real threads (hooks as gates)
    nsched, ndistinct, nsteps = 0, 0, 0
    plans = [("CacheSched.cfg", 300 if tier == "quick" else 6000)] + ([("CacheSched3.cfg", 3000)] if tier == "thorough" else [])
    edge_stats = None
    if replay and json.load(open(replay))["record"].get("sched") is not None:
        plans = []
        sched_recs = [json.load(open(replay))["record"]]
    else:
        sched_recs = []
    if replay and not sched_recs:
        plans = []
    if not replay:
        # transition coverage: the complete labelled transition graph of the 2-thread model (CacheEdge.tla), covered by complete behaviours
        er = vlib.run_tlc("CacheEdge.tla", "CacheEdge.cfg", "cacheedge_" + tier, workers=1, timeout=3000)
        if er["violated"]:
            raise ToolError("CacheEdge: TLC reports a violation in the specification itself (see %s)" % er["out"])
        import edgecover
        inits, edges = edgecover.load(er["out"])
        paths, ne, nn = edgecover.cover(inits, edges)
        edge_stats = {"model_states": nn, "model_transitions": ne, "initial_states": len(inits), "covering_behaviours": len(paths),
                      "tlc_distinct_states_incl_last_step": er["stats"]["distinct"]}
        sched_recs += paths
    for (cfg, num) in plans:
        name = "cachesched_%s_%s" % (tier, cfg.split(".")[0])
        sr = vlib.run_tlc("CacheSched.tla", cfg, name, workers=1, timeout=3000, simulate=num, depth=400)
        if sr["violated"]:
            raise ToolError("CacheSched: TLC reports a violation in the specification itself (see %s)" % sr["out"])
        dest = os.path.join(WORK, name + ".ndjson")
        vlib.printed_json(sr["out"], dest)
        sched_recs += [json.loads(l) for l in open(dest)]
    seen = set()
    todo = []
    for rec in sched_recs:
        key = json.dumps(rec, sort_keys=True)
        if key in seen:
            continue
        seen.add(key)
        todo.append(rec)
    nbad_sched = 0
    stop = threading.Event()

    def run_one(ir):
        (i, rec) = ir
        if stop.is_set():
            return None
        sfile = os.path.join(WORK, "c16_schedule_%d.json" % (i % 64))
        json.dump(rec, open(sfile, "w"))
        try:
            pr = subprocess.run([binp, "sched", plugin, sfile], cwd=WORK, timeout=120, stdout=subprocess.PIPE, stderr=subprocess.PIPE,
                                env=dict(os.environ, RUST_BACKTRACE="0"))
            return json.loads(pr.stdout.decode().strip().splitlines()[-1])
        except Exception as e:
            return {"failed": "the run produced no result (%s)" % e, "followed": 0, "total": len(rec["sched"]), "hung": True, "results_ok": False}

    # (each run is a fresh process whose threads mostly wait at their gates: a few of them side by side; 64 schedule files rotate, a batch is
    #  at most 6 wide)
    with concurrent.futures.ThreadPoolExecutor(max_workers=6) as ex:
        for (rec, o) in zip(todo, ex.map(run_one, enumerate(todo))):
            if o is None:
                continue
            nsched += 1
            nsteps += o["followed"]
            why = o["failed"] or ("not all threads finished" if o["hung"] else None) or \
                (None if o["followed"] == o["total"] else "threads finished after %d of %d scheduled steps" % (o["followed"], o["total"])) or \
                (None if o["results_ok"] else "results differ from the sequential results")
            if why:
                v.report("c16.schedule", {"t": None}, "programs %s :: %s" % (json.dumps(rec["progs"]), why), rec)
                nbad_sched += 1
                if nbad_sched >= 10:
                    stop.set()       # (every unfollowable schedule costs its waiting budget: ten of them are evidence enough)
    ndistinct = nsched
    races = sum(1 for o in observations if sum(1 for e in o["events"] if e["l"] == "Miss") >= 2)
    nev = sum(len(o["events"]) for o in observations)
    samples = [{"seed": o["seed"], "threads": o["threads"], "first_events": o["events"][:14]} for o in observations[:1]]
    cov = {"states": r["stats"]["distinct"] + t["stats"]["distinct"], "transitions": r["stats"]["generated"] + t["stats"]["generated"],
           "traces_validated_against_impl": len(observations) + ndistinct, "evaluations": len(observations) + ndistinct,
           "distinct_nontrivial": races + ndistinct,
           "schedules_forced_on_real_threads": ndistinct, "scheduled_steps_followed": nsteps, "transition_coverage": edge_stats,
           "rule": "model: all interleavings of the thread programs of CacheMC (first use of the same and of different interfaces, cached creation, calls, calls "
                   "that create nested connections, load_shared_library); implementation: one process per run, N threads started at a barrier performing seeded "
                   "random operations (create / load a real cdylib / call / calls with boxed-trait arguments that create further connections); "
                   "non-trivial = runs with at least two first-use negotiations; schedules: (a) a set of complete behaviours of the 2-thread model that "
                   "together take EVERY transition of its state graph (CacheEdge.tla explored exhaustively, greedy path cover of the labelled graph), "
                   "(b) further behaviours of CacheSched.tla drawn by TLC's simulator (2 threads; thorough also 3); each forced step by step on real "
                   "threads in a fresh process",
           "events_validated": nev, "samples": samples, "exhaustive": False,
           "explanation": "TLC checks Cache.tla exhaustively for the configured threads: no deadlock, OneNegotiationPerKey, TemplatesNegotiated, LockOrder, "
                          "ResultsEqualSequential and (liveness, weak fairness per thread) EveryOpCompletes; recorded traces of real multi-threaded runs - hook events "
                          "emitted under the protecting mutex, ordered by a sequence number taken under it - are validated by TLC against CacheTrace.tla (every event "
                          "enabled in the replayed cache state, all mutexes released, all threads finished, results equal the sequential ones); in the other "
                          "direction behaviours of the model are forced on real threads: the hooks act as gates that let a thread pass label l only when the "
                          "schedule's next entry is (thread, l), so that the real code must be able to take exactly the model's steps in the model's order"}
    return v.finish("model_checking", cov, [
        "the model is exhaustive for 2 threads (quick) / 3 threads (thorough); free real runs sample interleavings (barrier start, seeded yields in the hooks); "
        "forced schedules cover every transition of the 2-thread model (not every path); the 3-thread schedules are drawn at random from the model's "
        "behaviours (TLC -simulate)",
        "outside the property's quantifier but visible in the model: the template mutex is held across CreateInstance, so an implementation whose constructor "
        "creates a connection would self-deadlock; a panic under that mutex poisons all later connections"])

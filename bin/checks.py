"""Per-property check procedures.  Each returns the process exit code."""
import json, os, sys, time, collections
import vlib
from vlib import WORK, HARNESS, ToolError, log, Verdict

REGISTRY = {}
def prop(*ids):
    def deco(fn):
        for i in ids:
            REGISTRY[i] = fn
        return fn
    return deco

# ------------------------------------------------------------------------------------------------
# Wire family: one TLC run of WireMC (writer / reader machines over the type catalogue), generated
# Rust types, replay of every behaviour against the real code.
# ------------------------------------------------------------------------------------------------
WIRE_ASSUME = [
    "bounded universe: type catalogue and boundary-value tables of spec/WireMC.tla, spec/WireVals.tla for the tier",
    "the specification (Enc/Dec, writer/reader machines) is hand-written from the documented format; "
    "it is cross-checked inside TLC (machine output = Enc, Dec(Enc(v)) = v, every strict prefix rejected)",
    "bzip2 and AES-GCM are opaque layers (round trip and framing only)",
]

def wire_pipeline(tier, replay=None):
    """returns (tlc stats, records path, results path, n records)"""
    cfg = "WireMC_%s.cfg" % tier
    recs = os.path.join(WORK, "wire_%s.ndjson" % tier)
    if replay:
        rec = json.load(open(replay))["record"]
        recs = os.path.join(WORK, "wire_replay.ndjson")
        open(recs, "w").write(json.dumps(rec) + "\n")
        stats = {"generated": 0, "distinct": 0}
        n = 1
    else:
        r = vlib.run_tlc("WireMC.tla", cfg, "wiremc_" + tier, workers=8, timeout=3000 if tier == "thorough" else 900)
        if r["violated"]:
            raise ToolError("WireMC: TLC reports an invariant violation in the specification itself (see %s)" % r["out"])
        stats = r["stats"]
        n = vlib.printed_json(r["out"], recs)
        if n == 0:
            raise ToolError("WireMC produced no behaviours")
    gdir = os.path.join(HARNESS, "genwire")
    g = vlib.gen_types(gdir, "genwire", 12, [os.path.join(WORK, "wire_%s.ndjson" % tier)] if os.path.exists(os.path.join(WORK, "wire_%s.ndjson" % tier)) else [recs])
    log("[gen] %s" % g)
    binp = vlib.cargo_build("wire")
    res = recs + ".res"
    vlib.run_bin(binp, ["replay", recs, res], env={"WIRE_ALLMODES_EVERY": "1" if tier == "thorough" else "3"})
    return stats, recs, res, n

def wire_check(prop_id, tier, replay, prefixes, level_text):
    v = Verdict(prop_id, tier)
    stats, recs, res, n = wire_pipeline(tier, replay)
    records = open(recs).read().splitlines()
    nontrivial = set()
    types = set()
    samples = []
    evals = 0
    for line in open(res):
        r = json.loads(line)
        rec = json.loads(records[r["i"]])
        evals += 1
        types.add(json.dumps(rec["t"], sort_keys=True))
        if len(rec["bytes"]) > 0:
            nontrivial.add((json.dumps(rec["t"], sort_keys=True), json.dumps(rec["v"], sort_keys=True)))
        if len(samples) < 3 and len(rec["bytes"]) > 6:
            samples.append({"type": vlib.show(rec["t"]), "ver": rec["ver"], "value": rec["v"], "bytes": rec["bytes"],
                            "write_calls": rec["wcalls"]})
        for f in r["fails"]:
            if f["check"].startswith("tool."):
                raise ToolError("harness: %s %s" % (f["check"], f["detail"][:200]))
            if any(f["check"].startswith(p) for p in prefixes):
                v.report(f["check"], {"t": rec["t"], "ver": rec["ver"], "v": rec["v"]},
                         "%s :: %s" % (vlib.show(rec["t"]), f["detail"]), rec)
    cov = {"states": stats["distinct"], "transitions": stats["generated"],
           "traces_validated_against_impl": evals,
           "evaluations": evals, "distinct_nontrivial": len(nontrivial),
           "rule": "one behaviour per (type descriptor, boundary value) of the catalogue; non-trivial = encodes to at least one byte; distinct by (descriptor, value)",
           "type_expressions": len(types), "samples": samples, "exhaustive": not replay,
           "explanation": level_text}
    return v.finish("model_checking", cov, WIRE_ASSUME)

@prop("C01")
def c01(p, tier, replay):
    return wire_check(p, tier, replay, ["c01."],
        "TLC enumerates every (type, value) of the catalogue, runs the writer and reader machines and proves "
        "RoundTrip/ConsumesExactly on the model; every behaviour is replayed on the real code through bare, plain, "
        "schema-less, bzip2 and encrypted containers and the loaded value / consumed length compared")

@prop("C02")
def c02(p, tier, replay):
    return wire_check(p, tier, replay, ["c02."],
        "TLC computes the documented encoding (Enc) and the machine output for every (type, value); the real "
        "bare_serialize / save / save_noschema bytes must equal them exactly, the header must be the documented one, "
        "and the real reader must load the specification's bytes")

def prebuild():
    """used by bin/setup: generate sources for the quick tier and build all harness binaries"""
    r = vlib.run_tlc("WireMC.tla", "WireMC_quick.cfg", "wiremc_quick", workers=8, timeout=900)
    recs = os.path.join(WORK, "wire_quick.ndjson")
    vlib.printed_json(r["out"], recs)
    vlib.gen_types(os.path.join(HARNESS, "genwire"), "genwire", 12, [recs])
    vlib.cargo_build("wire")

#!/usr/bin/env python3
"""edgecover.py <tlc-out of CacheEdge> <dest.ndjson>
Reads the labelled transition graph TLC printed for spec/CacheEdge.tla (init / edge lines) and writes complete behaviours
{"progs": .., "sched": [{"t":..,"l":..}..]} (initial state to a terminal state) that together take every transition at least once.
Greedy: repeatedly the path from an initial state that takes the largest number of not yet covered transitions (the graph is acyclic:
every step advances a program counter or consumes a program)."""
import json, sys
from collections import defaultdict

def load(path):
    inits, edges = [], []
    for line in open(path, errors="replace"):
        if line.startswith('"{'):
            j = json.loads(json.loads(line.strip()))
            if j["kind"] == "init":
                inits.append(j)
            else:
                edges.append(j)
    return inits, edges

def cover(inits, edges):
    ids = {}
    def nid(s):
        return ids.setdefault(s, len(ids))
    out = defaultdict(list)          # node -> [(edge index, dst)]
    E = []
    seen = set()
    for e in edges:
        a, b = nid(e["a"]), nid(e["b"])
        k = (a, b, e["t"], e["l"])
        if k in seen:
            continue
        seen.add(k)
        out[a].append((len(E), b))
        E.append((a, b, e["t"], e["l"]))
    n = len(ids)
    # topological order (also proves acyclicity)
    indeg = [0] * n
    for (a, b, _, _) in E:
        indeg[b] += 1
    order, stack = [], [i for i in range(n) if indeg[i] == 0]
    while stack:
        x = stack.pop()
        order.append(x)
        for (_, b) in out[x]:
            indeg[b] -= 1
            if indeg[b] == 0:
                stack.append(b)
    if len(order) != n:
        raise SystemExit("the transition graph has a cycle")
    covered = [False] * len(E)
    left = len(E)
    init_nodes = [(nid(i["a"]), i["progs"]) for i in inits]
    paths = []
    while left:
        best = [0] * n
        nxt = [None] * n
        for x in reversed(order):
            bv, be = -1, None
            for (ei, b) in out[x]:
                val = best[b] + (0 if covered[ei] else 1)
                if val > bv:
                    bv, be = val, (ei, b)
            if be is not None:
                best[x], nxt[x] = bv, be
        (start, progs) = max(init_nodes, key=lambda ip: best[ip[0]])
        if best[start] == 0:
            raise SystemExit("%d transitions are not reachable from an initial state" % left)
        x, sched = start, []
        while nxt[x] is not None:
            (ei, b) = nxt[x]
            if not covered[ei]:
                covered[ei] = True
                left -= 1
            sched.append({"t": E[ei][2], "l": E[ei][3]})
            x = b
        paths.append({"progs": progs, "sched": sched})
    return paths, len(E), n

if __name__ == "__main__":
    inits, edges = load(sys.argv[1])
    paths, ne, nn = cover(inits, edges)
    with open(sys.argv[2], "w") as f:
        for p in paths:
            f.write(json.dumps(p) + "\n")
    print(json.dumps({"states": nn, "transitions": ne, "initial_states": len(inits), "behaviours": len(paths),
                      "steps": sum(len(p["sched"]) for p in paths)}))

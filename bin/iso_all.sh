#!/bin/bash
# iso_all.sh <tier> <PROP>...   runs the given checks one after another from ONE scratch copy of /verif HEAD against a
# scratch worktree of /repo HEAD (both under /tmp/iso, removed afterwards), so that the generated crates are built once.
# Prints "<PROP> exit=<rc> violations=<n> known=<k> secs=<s>" per property.
T="$1"; shift
D=/tmp/iso
git -C /repo worktree remove --force $D/repo >/dev/null 2>&1; git -C /verif worktree remove --force $D/verif >/dev/null 2>&1
mkdir -p $D/results
git -C /repo worktree add --detach $D/repo HEAD >/dev/null 2>&1 || { echo "repo worktree failed"; exit 2; }
git -C /verif worktree add --detach $D/verif HEAD >/dev/null 2>&1 || { echo "verif worktree failed"; exit 2; }
grep -rl --include=Cargo.toml '/repo/' $D/verif/harness | xargs sed -i "s#/repo/#$D/repo/#g"
export VERIF_REPO=$D/repo CARGO_TARGET_DIR=$D/target
for p in "$@"; do
  s=$SECONDS
  ( cd $D/verif && bin/check $p --tier $T > $D/results/${T}_$p.out 2> $D/results/${T}_$p.err ); rc=$?
  echo "$p exit=$rc violations=$(grep -c '^VIOLATION' $D/results/${T}_$p.out) known=$(grep -c '^KNOWN-FINDING' $D/results/${T}_$p.out) secs=$((SECONDS-s))"
done
git -C /verif worktree remove --force $D/verif; git -C /repo worktree remove --force $D/repo

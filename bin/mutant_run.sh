#!/bin/bash
# mutant_run.sh <patch.diff> <label> <PROP> [<PROP>...]
# Runs the quick checks of the given properties against a PATCHED scratch copy of /repo, using a scratch copy of
# the committed /verif (git HEAD), entirely under /tmp/mt/<label>; /repo and /verif themselves are not touched.
# <patch.diff> may be "none" (unpatched tree); MT_TIER=thorough selects the thorough tier, MT_TARGET another target dir.
# Prints "<label> <PROP> exit=<rc> violations=<n>" per property; removes the scratch copies afterwards.
P="$1"; L="$2"; shift 2
D=/tmp/mt/$L
rm -rf "$D"; mkdir -p "$D"
git -C /repo worktree remove --force "$D/repo" >/dev/null 2>&1
git -C /repo worktree add --detach "$D/repo" HEAD >/dev/null 2>&1 || { echo "$L: repo worktree failed"; exit 2; }
[ "$P" = none ] || ( cd "$D/repo" && git apply "$P" ) || { echo "$L: patch does not apply"; git -C /repo worktree remove --force "$D/repo"; exit 2; }
git -C /verif worktree remove --force "$D/verif" >/dev/null 2>&1
git -C /verif worktree add --detach "$D/verif" HEAD >/dev/null 2>&1 || { echo "$L: verif worktree failed"; exit 2; }
# point every path dependency at the patched copy
grep -rl --include=Cargo.toml '/repo/' "$D/verif/harness" | xargs sed -i "s#/repo/#$D/repo/#g"
export VERIF_REPO="$D/repo"
export CARGO_TARGET_DIR=${MT_TARGET:-/tmp/mt/target}   # shared by successive (sequential) mutant runs: dependencies stay cached
mkdir -p /tmp/mt/results
for prop in "$@"; do
  ( cd "$D/verif" && bin/check "$prop" --tier ${MT_TIER:-quick} > /tmp/mt/results/${L}_${prop}.out 2> /tmp/mt/results/${L}_${prop}.err ); rc=$?
  nv=$(grep -c "^VIOLATION" /tmp/mt/results/${L}_${prop}.out)
  nk=$(grep -c "^KNOWN-FINDING" /tmp/mt/results/${L}_${prop}.out)
  echo "$L $prop exit=$rc violations=$nv known=$nk secs=$SECONDS"
done
git -C /verif worktree remove --force "$D/verif"
git -C /repo worktree remove --force "$D/repo"
rm -rf "$D"

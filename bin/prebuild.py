#!/usr/bin/env python3
"""setup: run the generation half of every pipeline once so that the generated crates exist and cargo's cache is warm."""
import sys, os
sys.path.insert(0, os.path.dirname(os.path.abspath(__file__)))
import vlib, checks
try:
    checks.prebuild()
except vlib.ToolError as e:
    print("setup: %s" % e, file=sys.stderr)
    sys.exit(1)

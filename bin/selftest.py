#!/usr/bin/env python3
"""bin/selftest.py  — anti-vacuity: demonstrate that the trace specifications are bound to what was recorded.

For every *Trace module the observations recorded by the last run of the corresponding check (work/*.obs) are
taken, ONE field of a few observations is corrupted (or one hook's events are removed) and TLC must reject exactly
the corrupted observations, while the uncorrupted file is accepted.  Not a registered property check; its output is
quoted in DESIGN.md.  Run after `bin/check C04 C06 C08 C11 C12 C16` have left their observation files in work/.

exit 0: every corruption was rejected and every clean file accepted; 1 otherwise."""
import json, os, sys, copy
sys.path.insert(0, os.path.dirname(os.path.abspath(__file__)))
import vlib
from vlib import WORK

def tlc(module, cfg, name, obs):
    r = vlib.run_tlc(module, cfg, "selftest_" + name, workers=4, timeout=1500, extra_env={"OBS": obs}, java_opts="-Xss1g -Xmx8g")
    if r["violated"]:
        raise SystemExit("TLC error in %s (see %s)" % (module, r["out"]))
    out = os.path.join(WORK, "selftest_%s.out" % name)
    vlib.printed_json(r["out"], out)
    return [json.loads(l) for l in open(out)]

def load(path, limit=400):
    if not os.path.exists(path):
        return None
    rows = []
    for line in open(path):
        rows.append(json.loads(line))
        if len(rows) >= limit:
            break
    return rows

def write(rows, name):
    p = os.path.join(WORK, "selftest_%s.obs" % name)
    with open(p, "w") as o:
        for r in rows:
            o.write(json.dumps(r) + "\n")
    return p

RESULTS = []
def case(name, module, cfg, src, corrupt, bad_verdict, limit=400):
    """corrupt(rows) -> set of 1-based indices that were corrupted (rows modified in place)"""
    rows = load(os.path.join(WORK, src), limit)
    if rows is None:
        RESULTS.append((name, "SKIPPED (no %s: run the check first)" % src, True))
        return
    clean = tlc(module, cfg, name + "_clean", write(rows, name + "_clean"))
    clean_bad = [j for j in clean if bad_verdict(j)]
    bad_rows = copy.deepcopy(rows)
    idx = corrupt(bad_rows)
    rej = tlc(module, cfg, name + "_bad", write(bad_rows, name + "_bad"))
    rejected = {j["i"] for j in rej if bad_verdict(j)} - {j["i"] for j in clean_bad}
    ok = len(idx) > 0 and idx <= rejected and rejected <= idx
    RESULTS.append((name, "%d observations, %d corrupted, %d rejected (%s)%s" % (
        len(rows), len(idx), len(rejected), "exactly the corrupted ones" if ok else "MISMATCH: corrupted %s rejected %s" % (sorted(idx)[:5], sorted(rejected)[:5]),
        "" if not clean_bad else "; clean file already had %d rejections (known findings)" % len(clean_bad)), ok))

# ---- C04 Packed: claim "packed" for a type whose observed layout has padding
def c_packed(rows):
    idx = set()
    for i, r in enumerate(rows):
        lt = r["lt"]
        if not r["packed"] and r["t"]["k"] == "struct" and len(lt["kids"]) >= 2 and sum(k["sz"] for k in lt["kids"]) < lt["sz"]:
            r["packed"] = True
            idx.add(i + 1)
            if len(idx) >= 3:
                break
    return idx
case("C04.Packed: packed claimed for a padded struct", "Packed.tla", "Packed.cfg", "c04_quick.obs", c_packed,
     lambda j: j["verdict"] not in ("ok-packed", "ok-not-packed"), limit=4000)

# ---- C06 MutTrace: an error turned into a panic; a returned value that grew by one byte
def c_mut(rows):
    idx = set()
    for i, r in enumerate(rows):
        if r["real"] == "err" and len(idx) < 2:
            r["real"] = "panic"; r["oom"] = False
            idx.add(i + 1)
        elif r["real"] == "ok" and len(r["reser"]) > 0 and r["mut"] == "none" and len(idx) < 4:
            r["reser"] = r["reser"] + [0]
            idx.add(i + 1)
    return idx
case("C06.MutTrace: error -> panic, returned value one byte longer", "MutTrace.tla", "MutTrace.cfg", "mut_quick.obs", c_mut,
     lambda j: j["verdict"] != "ok")

# ---- C06 SchemaMutTrace
def c_smut(rows):
    idx = set()
    for i, r in enumerate(rows):
        if r["real"] == "err" and r["mut"] != "none" and len(idx) < 2:
            r["real"] = "panic"; r["oom"] = False
            idx.add(i + 1)
        elif r["real"] == "ok" and r["ok"] and r["known"] and len(r["reser"]) > 2 and len(idx) < 4:
            r["reser"][-1] = (r["reser"][-1] + 1) % 256
            idx.add(i + 1)
    return idx
case("C06.SchemaMutTrace: error -> panic, section decoded to another schema", "SchemaMutTrace.tla", "SchemaMutTrace.cfg", "schemamut_quick.obs", c_smut,
     lambda j: j["verdict"] != "ok")

# ---- C08 StreamTrace: a swallowed fault; an interrupted call retried with another request
def c_stream(rows):
    idx = set()
    for i, r in enumerate(rows):
        head = r["events"]["head"]
        if r["result"] == "err" and any(e["res"] < 0 and e["res"] != -100 for e in head) and len(idx) < 2:
            r["result"] = "ok"
            idx.add(i + 1)
        elif len(idx) < 4:
            for k, e in enumerate(head[:-1]):
                if e["res"] == -100 and head[k + 1]["op"] == e["op"] and head[k + 1]["req"] == e["req"] and e["req"] > 1:
                    head[k + 1]["req"] = e["req"] - 1
                    idx.add(i + 1)
                    break
    return idx
case("C08.StreamTrace: fault swallowed, interrupted call not retried", "StreamTrace.tla", "StreamTrace.cfg", "stream_quick.obs", c_stream,
     lambda j: j["verdict"] != "ok")

# ---- C11 AbiTrace: by-reference decision claimed for two different layouts
def c_abi(rows):
    idx = set()
    for i, r in enumerate(rows):
        if not r["passable"] and json.dumps(r["sa"], sort_keys=True) != json.dumps(r["sb"], sort_keys=True):
            r["passable"] = True
            idx.add(i + 1)
            if len(idx) >= 3:
                break
    return idx
case("C11.AbiTrace: by-reference claimed between different layouts", "AbiTrace.tla", "AbiTrace.cfg", "c11_quick.obs", c_abi,
     lambda j: j["verdict"].startswith("passed-by-reference-without"))

# ---- C12 SchemaTrace: one byte dropped from the recorded bytes; a field removed from the recorded schema
def c_schema(rows):
    idx = set()
    for i, r in enumerate(rows):
        if len(idx) < 2 and r["cases"] and len(r["cases"][0]["bytes"]) > 0:
            r["cases"][0]["bytes"] = r["cases"][0]["bytes"][:-1]
            idx.add(i + 1)
        elif len(idx) < 4 and r["schema"]["k"] == "struct" and len(r["schema"]["ts"]) >= 2 and any(len(c["bytes"]) > 0 for c in r["cases"]):
            r["schema"]["ts"] = r["schema"]["ts"][1:]
            idx.add(i + 1)
    return idx
case("C12.SchemaTrace: recorded byte dropped, schema field removed", "SchemaTrace.tla", "SchemaTrace.cfg", "c12_quick.clean.obs", c_schema,
     lambda j: True, limit=2500)

# ---- C16 CacheTrace: the Insert hook removed; two events of different threads swapped across a lock
def c_cache(rows):
    idx = set()
    for i, r in enumerate(rows):
        ev = r["events"]
        if len(idx) < 2 and any(e["l"] == "Insert" for e in ev):
            r["events"] = [e for e in ev if e["l"] != "Insert"]
            idx.add(i + 1)
        elif len(idx) < 4:
            for k in range(len(ev) - 1):
                if ev[k]["l"] == "UnlockT" and ev[k + 1]["l"] == "LockT" and ev[k]["t"] != ev[k + 1]["t"]:
                    ev[k], ev[k + 1] = ev[k + 1], ev[k]      # a thread takes the mutex before its holder released it
                    idx.add(i + 1)
                    break
    return idx
case("C16.CacheTrace: Insert hook removed, lock taken while held", "CacheTrace.tla", "CacheTrace.cfg", "cache_quick.obs", c_cache,
     lambda j: True)

# ---- design level: the by-reference rule WITHOUT field identity (before fix 134a7b4) must fail ArgTransparent in the model
r = vlib.run_tlc("AbiVer.tla", "AbiVer_nameblind.cfg", "selftest_nameblind", workers=2, timeout=600)
txt = open(r["out"]).read()
hit = r["violated"] and "Invariant ArgTransparent is violated" in txt and 'mname = "remref"' in txt
RESULTS.append(("C10/C11.AbiVer (negative configuration NameBlind = TRUE)",
                "TLC %s" % ("reports ArgTransparent violated by the remref call (the F23 counterexample is a behaviour of the model)" if hit
                            else "did NOT find the expected counterexample"), hit))

# ---- C16 forced schedules: a schedule that is NOT a behaviour of the real code must not be followable
import subprocess
sched_file = os.path.join(WORK, "cachesched_quick_CacheSched.ndjson")
abi = os.path.join(os.environ.get("CARGO_TARGET_DIR", os.path.join(vlib.HARNESS, "target")), "debug", "abi")
plugin = os.path.join(os.path.dirname(abi), "libplugin.so")
if os.path.exists(sched_file) and os.path.exists(abi):
    recs = [json.loads(l) for l in open(sched_file)]
    def run_sched(rec):
        f = os.path.join(WORK, "selftest_sched.json")
        json.dump(rec, open(f, "w"))
        pr = subprocess.run([abi, "sched", plugin, f], stdout=subprocess.PIPE, stderr=subprocess.PIPE, timeout=120)
        o = json.loads(pr.stdout.decode().strip().splitlines()[-1])
        return o["failed"] is None and o["followed"] == o["total"] and not o["hung"] and o["results_ok"]
    tried = rejected = clean_ok = 0
    for rec in recs:
        ls = [e["l"] for e in rec["sched"]]
        if "Miss" not in ls or tried >= 6:
            continue
        clean_ok += 1 if run_sched(rec) else 0
        bad1 = copy.deepcopy(rec)
        bad1["sched"][ls.index("Miss")]["l"] = "Hit"                   # the model claims a cache hit where the code must miss
        bad2 = copy.deepcopy(rec)
        i = ls.index("Insert")
        bad2["sched"] = bad2["sched"][:i] + bad2["sched"][i + 1:]      # the model forgets the Insert step
        for b in (bad1, bad2):
            tried += 1
            rejected += 0 if run_sched(b) else 1
    RESULTS.append(("C16.CacheSched: corrupted schedules (Miss -> Hit, Insert removed)",
                    "%d corrupted schedules, %d not followable by the real threads; %d/%d uncorrupted ones followed" % (tried, rejected, clean_ok, tried // 2),
                    tried > 0 and rejected == tried and clean_ok == tried // 2))
else:
    RESULTS.append(("C16.CacheSched", "SKIPPED (run bin/check C16 first)", True))

bad = 0
for (name, text, ok) in RESULTS:
    print("%s  %s: %s" % ("PASS" if ok else "FAIL", name, text))
    bad += 0 if ok else 1
sys.exit(1 if bad else 0)

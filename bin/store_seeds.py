#!/usr/bin/env python3
"""store_seeds.py <seed-root> <results-log>...
Copies every confirmed seeded change (<seed-root>/<PROP>/out/<x>/ with verify.json showing: demonstration passes
without the patch, fails with it, unedited suite passes with it) to /verif/seeded/<PROP><x>/ and writes meta.json.
The detection columns come from the logs of bin/mutant_run.sh ("<label> <PROP> exit=<rc> violations=<n> known=<k>");
later lines override earlier ones."""
import json, os, re, shutil, sys

ROOT = os.path.dirname(os.path.dirname(os.path.abspath(__file__)))
seed_root = sys.argv[1]
logs = sys.argv[2:]
det = {}
for lg in logs:
    for line in open(lg):
        m = re.match(r"(C\d\d[ab]) (C\d\d) exit=(\d+) violations=(\d+) known=(\d+)", line)
        if m:
            det.setdefault(m.group(1), {})[m.group(2)] = {"exit": int(m.group(3)), "violation_lines": int(m.group(4)),
                                                         "known_finding_lines": int(m.group(5))}

def section(notes, *heads):
    """text of the first markdown section whose heading contains one of `heads`"""
    lines = notes.splitlines()
    for i, l in enumerate(lines):
        if l.startswith("#") and any(h in l.lower() for h in heads):
            out = []
            for k in lines[i + 1:]:
                if k.startswith("#"):
                    break
                out.append(k)
            return "\n".join(out).strip()
    return ""

table = []
for prop in sorted(os.listdir(seed_root)):
    od = os.path.join(seed_root, prop, "out")
    if not os.path.isdir(od):
        continue
    for x in sorted(os.listdir(od)):
        sd = os.path.join(od, x)
        vj = os.path.join(sd, "verify.json")
        if not os.path.exists(vj):
            print("skip %s%s: not verified" % (prop, x))
            continue
        ver = json.load(open(vj))
        ok = ver.get("demo_without_patch_rc") == "0" and ver.get("demo_with_patch_rc") not in ("0", None) and ver.get("suite_with_patch_rc") == "0"
        if not ok:
            print("skip %s%s: verification failed %s" % (prop, x, ver))
            continue
        label = prop + x
        dd = os.path.join(ROOT, "seeded", label)
        os.makedirs(dd, exist_ok=True)
        for f in ("patch.diff", "demo.diff", "notes.md"):
            if os.path.exists(os.path.join(sd, f)):
                shutil.copy(os.path.join(sd, f), os.path.join(dd, f))
        notes = open(os.path.join(sd, "notes.md")).read() if os.path.exists(os.path.join(sd, "notes.md")) else ""
        title = next((l.lstrip("# ").strip() for l in notes.splitlines() if l.startswith("#")), label)
        files = sorted(set(re.findall(r"^\+\+\+ b/(\S+)", open(os.path.join(sd, "patch.diff")).read(), re.M)))
        d = det.get(label, {})
        caught = sorted(p for p, r in d.items() if r["exit"] == 1 and r["violation_lines"] > 0)
        meta = {
            "id": label,
            "breaks_property": prop,
            "title": title,
            "files_changed": files,
            "what_it_needs_to_manifest": section(notes, "needed", "needs", "manifest", "trigger"),
            "confirmation": {
                "how": "bin/verify_seed.sh in a scratch worktree of /repo (removed afterwards): demo.diff adds a test named seed_demo*; "
                       "`cargo test -p savefile-test --offline seed_demo` without and with patch.diff; then patch.diff alone under "
                       "`cargo nextest run --workspace --no-fail-fast --offline`",
                "repo_head": ver.get("repo_head"),
                "demo_without_patch_rc": int(ver["demo_without_patch_rc"]),
                "demo_with_patch_rc": int(ver["demo_with_patch_rc"]),
                "suite_with_patch": ver.get("suite_summary", "").strip(),
            },
            "checks_run": {
                "how": "bin/mutant_run.sh patch.diff <label> <PROP..>: quick tier of the named checks from a scratch copy of /verif HEAD "
                       "against a scratch worktree of /repo with the patch applied; /repo itself untouched",
                "results": d,
            },
            "detected_by": caught,
        }
        json.dump(meta, open(os.path.join(dd, "meta.json"), "w"), indent=1)
        table.append((label, title, caught, d))
for (label, title, caught, d) in table:
    print("%-5s %-28s %s" % (label, ",".join(caught) or ("MISSED" if d else "not run"), title[:90]))

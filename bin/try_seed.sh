#!/bin/bash
# try_seed.sh <patch.diff> <label> <PROP> [<PROP>...]
# applies the patch to /repo, runs the quick check of each property, reverts. Prints "<label> <PROP> exit=<rc>".
P="$1"; L="$2"; shift 2
cd /repo || exit 2
if ! git diff --quiet; then echo "/repo is dirty"; exit 2; fi
git apply "$P" || { echo "$L: patch does not apply"; exit 2; }
mkdir -p /tmp/seedruns
for prop in "$@"; do
  (cd /verif && bin/check "$prop" --tier quick > /tmp/seedruns/${L}_${prop}.out 2> /tmp/seedruns/${L}_${prop}.err); rc=$?
  nv=$(grep -c "^VIOLATION" /tmp/seedruns/${L}_${prop}.out)
  echo "$L $prop exit=$rc violations=$nv"
done
git -C /repo checkout -- .

#!/bin/bash
# verify_seed.sh <seed-out-dir> <label>
# Confirms in a scratch worktree of /repo HEAD: demo passes without the patch, fails with it, and the
# unedited suite passes with the patch. Writes <seed-out-dir>/verify.json . Removes the worktree afterwards.
set -u
SD="$1"; L="$2"
WT=/tmp/vs/wt_$L; mkdir -p /tmp/vs
export CARGO_TARGET_DIR=${VS_TARGET:-/tmp/vs/target}
export CARGO_NET_OFFLINE=true
git -C /repo worktree remove --force "$WT" >/dev/null 2>&1
git -C /repo worktree add --detach "$WT" HEAD >/dev/null 2>&1 || { echo "worktree failed"; exit 2; }
cd "$WT"
res() { python3 - "$@" <<'PY'
import json,sys
json.dump(dict(zip(sys.argv[2::2], sys.argv[3::2])), open(sys.argv[1],'w'), indent=1)
PY
}
git apply "$SD/demo.diff" || { res "$SD/verify.json" error "demo.diff does not apply"; git -C /repo worktree remove --force "$WT"; exit 1; }
cargo test -p savefile-test --offline seed_demo > "$SD/v_demo_nopatch.log" 2>&1; D0=$?
git apply "$SD/patch.diff" || { res "$SD/verify.json" error "patch.diff does not apply on HEAD"; git -C /repo worktree remove --force "$WT"; exit 1; }
cargo test -p savefile-test --offline seed_demo > "$SD/v_demo_patch.log" 2>&1; D1=$?
# suite with patch only (remove the demo)
git apply -R "$SD/demo.diff"
cargo nextest run --workspace --no-fail-fast --offline > "$SD/v_suite_patch.log" 2>&1; S=$?
SUM=$(grep -E "^\s+Summary" "$SD/v_suite_patch.log" | tail -1)
res "$SD/verify.json" demo_without_patch_rc "$D0" demo_with_patch_rc "$D1" suite_with_patch_rc "$S" suite_summary "$SUM" repo_head "$(git -C /repo rev-parse --short HEAD)"
cd /
git -C /repo worktree remove --force "$WT"
cat "$SD/verify.json"

"""Shared machinery of bin/check: TLC runs, harness builds, known findings, evidence, verdicts."""
import json, os, re, subprocess, sys, time, hashlib, shutil

ROOT = os.path.dirname(os.path.dirname(os.path.abspath(__file__)))
REPO = os.environ.get("VERIF_REPO", "/repo")
WORK = os.path.join(ROOT, "work")
SPEC = os.path.join(ROOT, "spec")
HARNESS = os.path.join(ROOT, "harness")
EVID = os.path.join(ROOT, "evidence")
TLA_JAR = "/opt/veriftools/tla/tla2tools.jar"

class ToolError(Exception):
    pass

def log(*a):
    print(*a, file=sys.stderr, flush=True)

def seed():
    try:
        return int(os.environ.get("VERIF_SEED", "0"))
    except ValueError:
        return 0

def ensure_dirs():
    for d in (WORK, EVID, os.path.join(WORK, "replay")):
        os.makedirs(d, exist_ok=True)

# ----------------------------------------------------------------------------------------------
# TLC
# ----------------------------------------------------------------------------------------------
def run_tlc(module, cfg, name, workers=8, timeout=1500, simulate=None, depth=None, extra_env=None,
            java_opts="-Xss512m", coverage=False, deque=False, expect_violation=False, tlc_args=()):
    """Runs TLC; returns dict(stats, out_path, printed(list of raw printed JSON strings), violated(bool))."""
    ensure_dirs()
    meta = os.path.join(WORK, "tlc_" + name)
    shutil.rmtree(meta, ignore_errors=True)
    outp = os.path.join(WORK, name + ".tlcout")
    cmd = ["java"] + java_opts.split()
    if deque:
        cmd += ["-Dtlc2.tool.queue.IStateQueue=StateDeque"]
    cmd += ["-XX:+UseParallelGC", "-cp", TLA_JAR, "tlc2.TLC", "-workers", str(workers), "-metadir", meta,
            "-cleanup", "-noGenerateSpecTE", "-config", os.path.join(SPEC, cfg)]
    if coverage:
        cmd += ["-coverage", "1"]
    if simulate:
        cmd += ["-simulate", "num=%d" % simulate]
        if depth:
            cmd += ["-depth", str(depth)]
        cmd += ["-seed", str(seed())]
    cmd += list(tlc_args)
    cmd += [os.path.join(SPEC, module)]
    env = dict(os.environ)
    if extra_env:
        env.update(extra_env)
    t0 = time.time()
    with open(outp, "w") as f:
        try:
            p = subprocess.run(cmd, stdout=f, stderr=subprocess.STDOUT, cwd=WORK, env=env, timeout=timeout)
        except subprocess.TimeoutExpired:
            raise ToolError("TLC timeout on %s/%s (see %s)" % (module, cfg, outp))
    wall = time.time() - t0
    shutil.rmtree(meta, ignore_errors=True)
    txt = open(outp, errors="replace").read()
    stats = {"generated": 0, "distinct": 0, "wall_s": round(wall, 1), "depth": 0}
    m = re.search(r"(\d+) states generated, (\d+) distinct states found", txt)
    if m:
        stats["generated"], stats["distinct"] = int(m.group(1)), int(m.group(2))
    m = re.search(r"depth of the complete state graph search is (\d+)", txt)
    if m:
        stats["depth"] = int(m.group(1))
    violated = ("Error: Invariant" in txt) or ("Error: Action property" in txt) or ("is violated" in txt) \
        or ("Error: Temporal properties were violated" in txt) or ("Error: Postcondition" in txt)
    ok = ("Model checking completed. No error has been found." in txt) or (simulate and p.returncode == 0) \
        or ("Finished in" in txt and not violated and p.returncode == 0)
    if violated and not expect_violation:
        return {"stats": stats, "out": outp, "violated": True, "text": txt}
    if not ok and not violated:
        raise ToolError("TLC failed on %s/%s rc=%s (see %s)\n%s" % (module, cfg, p.returncode, outp, txt[-2000:]))
    return {"stats": stats, "out": outp, "violated": violated, "text": txt}

def printed_json(tlc_out_path, dest):
    """Extracts the lines TLC printed with PrintT(ToJson(..)) into an ndjson file; returns count."""
    n = 0
    with open(dest, "w") as out:
        for line in open(tlc_out_path, errors="replace"):
            if line.startswith('"{'):
                out.write(json.loads(line.strip()))
                out.write("\n")
                n += 1
    return n

def coverage_zero_actions(txt, actions):
    """Returns the subset of `actions` that TLC's -coverage output reports with 0 distinct states."""
    zero = []
    for a in actions:
        m = re.search(r"<%s line [^>]*>: (\d+):(\d+)" % re.escape(a), txt)
        if m and int(m.group(2)) == 0:
            zero.append(a)
    return zero

# ----------------------------------------------------------------------------------------------
# cargo
# ----------------------------------------------------------------------------------------------
def ensure_generated():
    """the cargo workspace lists the generated crates as members: make sure they exist (as empty crates if need be)"""
    empty = os.path.join(WORK, "empty.ndjson")
    ensure_dirs()
    open(empty, "w").close()
    if not os.path.exists(os.path.join(HARNESS, "genwire", "all", "Cargo.toml")):
        gen_types(os.path.join(HARNESS, "genwire"), "genwire", 12, [empty])
    if not os.path.exists(os.path.join(HARNESS, "genabi", "Cargo.toml")):
        subprocess.run([sys.executable, os.path.join(ROOT, "gen", "gen_abi.py"), os.path.join(HARNESS, "genabi"), empty], check=True,
                       stdout=subprocess.PIPE)

def cargo_build(pkg, release=False, timeout=9000, features=None):
    ensure_generated()
    cmd = ["cargo", "build", "--offline", "-p", pkg]
    if release:
        cmd.append("--release")
    if features:
        cmd += ["--features", features]
    env = dict(os.environ)
    env["CARGO_NET_OFFLINE"] = "true"
    t0 = time.time()
    p = subprocess.run(cmd, cwd=HARNESS, env=env, stdout=subprocess.PIPE, stderr=subprocess.STDOUT, timeout=timeout)
    if p.returncode != 0:
        sys.stderr.write(p.stdout.decode(errors="replace")[-6000:])
        raise ToolError("cargo build -p %s failed" % pkg)
    log("[build] %s %.0fs" % (pkg, time.time() - t0))
    tdir = os.environ.get("CARGO_TARGET_DIR", os.path.join(HARNESS, "target"))
    return os.path.join(tdir, "release" if release else "debug", pkg)

def run_bin(path, args, timeout=3000, env=None, ok_codes=(0,)):
    e = dict(os.environ)
    e["RUST_BACKTRACE"] = "0"
    if env:
        e.update(env)
    p = subprocess.run([path] + args, cwd=WORK, env=e, stdout=subprocess.PIPE, stderr=subprocess.PIPE, timeout=timeout)
    if p.returncode not in ok_codes:
        sys.stderr.write(p.stderr.decode(errors="replace")[-4000:])
        raise ToolError("%s %s exited with %s" % (os.path.basename(path), " ".join(args[:2]), p.returncode))
    return p

def run_bin_resilient(path, args, recs, out, died_check, timeout=3000, env=None, max_deaths=100000):
    """Runs a harness subcommand that handles one record per input line and writes one result line per record.
    If the process is killed (abort / signal raised by the code under test), the record being handled is given the
    failure `died_check` and the run is resumed after it."""
    total = sum(1 for l in open(recs) if l.strip())
    start, deaths = 0, 0
    if os.path.exists(out):
        os.remove(out)
    while True:
        e = dict(os.environ)
        if env:
            e.update(env)
        e["WIRE_START"] = str(start)
        e["RUST_BACKTRACE"] = "0"
        p = subprocess.run([path] + args + [recs, out], cwd=WORK, env=e, stdout=subprocess.PIPE, stderr=subprocess.PIPE, timeout=timeout)
        done = sum(1 for _ in open(out)) if os.path.exists(out) else 0
        if p.returncode == 0:
            return deaths
        if p.returncode > 0 and p.returncode != 134:
            sys.stderr.write(p.stderr.decode(errors="replace")[-3000:])
            raise ToolError("%s %s exited with %s" % (os.path.basename(path), " ".join(args), p.returncode))
        # killed by a signal (negative return code) or abort
        deaths += 1
        if deaths > max_deaths:
            raise ToolError("%s died more than %d times" % (os.path.basename(path), max_deaths))
        msg = p.stderr.decode(errors="replace").strip().splitlines()
        first = next((l for l in msg if "alloc" in l or "panicked" in l or "overflow" in l), msg[0] if msg else "")
        with open(out, "a") as o:
            o.write(json.dumps({"i": done, "fails": [{"check": died_check, "detail": "process killed (rc=%s) while handling this record: %s" % (p.returncode, first[:200])}], "obs": None}) + "\n")
        start = done + 1
        if start >= total:
            return deaths

def gen_types(outdir, crate, shards, inputs):
    p = subprocess.run([sys.executable, os.path.join(ROOT, "gen", "gen_types.py"), outdir, crate, str(shards)] + inputs,
                       stdout=subprocess.PIPE, stderr=subprocess.PIPE)
    if p.returncode != 0:
        sys.stderr.write(p.stderr.decode())
        raise ToolError("gen_types failed")
    return json.loads(p.stdout.decode().strip().splitlines()[-1])

# ----------------------------------------------------------------------------------------------
# descriptors (pretty names + structural predicates used by known findings)
# ----------------------------------------------------------------------------------------------
def show(t):
    k = t["k"]
    if k == "p":
        return t["s"]
    if k == "str":
        return "String"
    if k == "lib":
        return t["s"]
    if k == "vec":
        return "%s<%s>" % (t["s"], show(t["ts"][0]))
    if k == "arr":
        return "[%s;%d]" % (show(t["ts"][0]), t["n"])
    if k == "opt":
        return "Option<%s>" % show(t["ts"][0])
    if k == "res":
        return "Result<%s,%s>" % (show(t["ts"][0]), show(t["ts"][1]))
    if k == "box":
        return "%s<%s>" % (t["s"], show(t["ts"][0]))
    if k == "tup" and t["s"] == "Range":
        return "Range<%s>" % show(t["ts"][0])
    if k == "tup":
        return "(" + ",".join(show(x) for x in t["ts"]) + ")"
    if k == "map":
        return "%s<%s,%s>" % (t["s"], show(t["ts"][0]), show(t["ts"][1]))
    if k == "struct":
        def fld(i):
            a = t["fa"][i]
            s = show(t["ts"][i])
            if a["rm"] == "removed":
                s = "Removed<%s>" % s
            if a["rm"] == "abi":
                s = "AbiRemoved<%s>" % s
            if not (a["from"] == 0 and a["to"] == 999):
                s += "@%d..%s" % (a["from"], "" if a["to"] == 999 else a["to"])
            if a["ig"]:
                s += "!ignore"
            if a["af"] <= a["at"]:
                s += "~as(%d..%d:%s)" % (a["af"], a["at"], show(a["asty"]))
            return s
        return "struct%s%s{%s}" % ("(C)" if t["s"] == "C" else "", "(tuple)" if t["n"] == 1 else "<T>" if t["n"] == 2 else "",
                                    ",".join(fld(i) for i in range(len(t["ts"]))))
    if k == "enum":
        if t["n"] > 0:
            return "enum#%s[%d units]" % (t["s"], t["n"])
        def var(v):
            s = "V"
            if v["ts"] and v["s"] == "{}":
                s += "{" + ",".join(show(x) for x in v["ts"]) + "}"
            elif v["ts"]:
                s += "(" + ",".join(show(x) for x in v["ts"]) + ")"
            if v["s"] and v["s"] != "{}":
                s += "=" + v["s"]
            if v["n"]:
                s += "@%d.." % v["n"]
            return s
        return "enum#%s{%s}" % (t["s"], "|".join(var(v) for v in t["ts"]))
    return k

def walk(t):
    yield t
    for x in t.get("ts", []):
        yield from walk(x)
    for a in t.get("fa", []):
        if a["af"] <= a["at"]:
            yield from walk(a["asty"])

def any_node(t, pred):
    return any(pred(x) for x in walk(t))

# ----------------------------------------------------------------------------------------------
# known findings
# ----------------------------------------------------------------------------------------------
REPLAY_RUN = False
PREDICATES = {}
def predicate(fn):
    PREDICATES[fn.__name__] = fn
    return fn

def load_known():
    p = os.path.join(ROOT, "known-findings.json")
    if not os.path.exists(p):
        return {"open": [], "fixed": []}
    return json.load(open(p))

class Verdict:
    """Collects violations / known findings for one property run and produces exit code + evidence."""
    def __init__(self, prop, tier):
        self.prop, self.tier = prop, tier
        self.known = [k for k in load_known()["open"] if prop in k["properties"]]
        self.violations = []
        self.known_hits = {}
        self.t0 = time.time()
        self.nrep = 0

    def report(self, check, subject, detail, record):
        """check: name of the failed comparison; subject: dict given to the predicates (e.g. {'t':desc,...})."""
        for k in self.known:
            if any(re.fullmatch(pat, check) for pat in k["checks"]) and PREDICATES[k["predicate"]](subject):
                self.known_hits.setdefault(k["id"], {"k": k, "n": 0, "first": detail[:200]})["n"] += 1
                return
        self.nrep += 1
        path = os.path.join(WORK, "replay", "%s-%d.json" % (self.prop, self.nrep))
        if self.nrep <= 50:
            json.dump({"property": self.prop, "check": check, "detail": detail, "record": record}, open(path, "w"))
        self.violations.append((check, detail, path))

    def finish(self, level, coverage, assumptions, extra=None):
        ensure_dirs()
        for kid, h in sorted(self.known_hits.items()):
            print("KNOWN-FINDING: property=%s %s: %s (%d vectors)" % (self.prop, kid, h["k"]["what"], h["n"]))
        for (check, detail, path) in self.violations[:50]:
            print("VIOLATION property=%s replay=%s" % (self.prop, path))
            log("   %s: %s" % (check, detail[:300]))
        ev = {"property_id": self.prop, "tier": self.tier, "seed": seed(), "level": level,
              "coverage": coverage, "assumptions": assumptions, "wall_s": round(time.time() - self.t0, 1),
              "violations": len(self.violations)}
        if extra:
            ev.update(extra)
        ev["coverage"]["known_findings_hit"] = {k: v["n"] for k, v in self.known_hits.items()}
        if not REPLAY_RUN:      # a --replay run examines one recorded input: it does not describe what the check covers
            json.dump(ev, open(os.path.join(EVID, self.prop + ".json"), "w"), indent=1)
        return 1 if self.violations else 0

# ---- predicates of known-findings.json ---------------------------------------------------------
def _enum_unit_and_payload(e):
    return (e["k"] == "enum" and e["s"] != "" and e["n"] == 0
            and any(len(v["ts"]) == 0 for v in e["ts"]) and any(len(v["ts"]) > 0 for v in e["ts"])
            and all(v["s"] in ("", "{}") for v in e["ts"]))      # implicit discriminants (tuple-like or named fields)

@predicate
def repr_enum_unit_beside_payload_in_bulk(subject):
    t = subject["t"]
    for x in walk(t):
        bulk_parent = (x["k"] == "vec" and x["s"] in ("Vec", "BoxSlice", "ArcSlice", "ArrayVec")) or x["k"] in ("arr", "struct", "tup")
        if bulk_parent and any(_enum_unit_and_payload(c) for c in x["ts"]):
            return True
        # nested arrays of such enums keep the classification
        if x["k"] == "arr" and any_node(x, _enum_unit_and_payload) and all(y["k"] in ("arr", "enum", "var", "p") for y in walk(x)):
            return True
    return False

@predicate
def schema_method_receiver_or_async(subject):
    """a schema tree (uniform node) containing a trait method whose receiver is not &self or that is async"""
    def go(x):
        return (x["k"] == "method" and x["n"] != 0) or any(go(c) for c in x["ts"])
    return subject.get("s") is not None and go(subject["s"])

@predicate
def recursive_definition_nested_deeply(subject):
    """a recursive definition (reader recursion = nesting depth of the input) at a depth of 10 000 levels or more"""
    t = subject.get("t") or {}
    return t.get("k") == "lib" and t.get("s", "").startswith("Rec") and subject.get("depth", 0) >= 10000

@predicate
def contains_result(subject):
    return any_node(subject["t"], lambda x: x["k"] == "res")

@predicate
def contains_socketaddr(subject):
    return any_node(subject["t"], lambda x: x["k"] == "lib" and x["s"] == "SocketAddr")

@predicate
def contains_bitvec(subject):
    return any_node(subject["t"], lambda x: x["k"] == "lib" and x["s"] in ("BitVec", "BitSet", "BitVec08", "BitSet08"))

def _mentions_as_element(t, key):
    """t's schema computation asks the recursion guard about `key` (key is the element type of a container inside t)"""
    for x in walk(t):
        if x["k"] in ("vec", "arr", "box", "map") and any(c == key for c in x["ts"]):
            return True
    return False

@predicate
def hashmap_value_contains_key_container(subject):
    return any_node(subject["t"], lambda x: x["k"] == "map" and x["s"] in ("HashMap", "FxHashMap", "IndexMap")
                    and _mentions_as_element(x["ts"][1], x["ts"][0]))

@predicate
def contains_repr_enum_unit_beside_payload(subject):
    return any_node(subject["t"], _enum_unit_and_payload)

@predicate
def bulk_of_bool_char_or_repr_enum(subject):
    def risky(e):
        return (e["k"] == "p" and e["s"] in ("bool", "char")) or (e["k"] == "enum" and e["s"] != "") \
            or (e["k"] in ("arr", "tup", "struct") and any(risky(c) for c in e["ts"]))
    return any_node(subject["t"], lambda x: ((x["k"] == "vec" and x["s"] in ("Vec", "BoxSlice", "ArcSlice", "ArrayVec")) or x["k"] == "arr")
                    and risky(x["ts"][0]))

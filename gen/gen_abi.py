#!/usr/bin/env python3
"""Generate the ABI replay crate from AbiVer.tla's "family" records.

gen_abi.py <outdir> <records.ndjson>
For every family f and interface version v:   mod f<f>_v<v> { trait Iface (savefile_abi_exportable(version = v)),
a logging implementation Impl, a Conn wrapper implementing vcommon::abi::Caller }  plus  connect(fam, i, j)
which joins a version-i caller to a version-j implementation (from_boxed_trait_for_test)."""
import sys, os, json
sys.path.insert(0, os.path.dirname(os.path.abspath(__file__)))
from gen_types import Gen, canon, write_if_changed, CARGO

def main():
    out = sys.argv[1]
    fams, revs = {}, {}
    for path in sys.argv[2:]:
        for line in open(path):
            line = line.strip()
            if line and '"kind":"family"' in line:
                r = json.loads(line)
                fams[r["fam"]] = r
            if line and '"kind":"revision"' in line:
                r = json.loads(line)
                revs[r["id"]] = r
    g = Gen()
    mods, arms, schema_arms, led_arms = [], [], [], []
    # ---- ledger revisions: the same trait name `Led` in one module per revision
    for rid in sorted(revs):
        r = revs[rid]
        isasync = any(m["asy"] for m in r["methods"])
        tm, lis = [], ""
        for m in r["methods"]:
            argdecl = ", ".join("a%d: %s" % (k, g.ty(t)) for k, t in enumerate(m["args"]))
            if m.get("nest"):
                # an object of a nested exported interface (same name `Lis` in every revision) whose method uses the nest types
                lis = "#[savefile_abi_exportable(version = %d)]\n    pub trait Lis {\n        fn on(&self, %s) -> u8;\n    }\n    " % (
                    r["latest"], ", ".join("p%d: %s" % (k, g.ty(t)) for k, t in enumerate(m["nest"])))
                argdecl = "l: Box<dyn Lis>" + (", " + argdecl if argdecl else "")
            tm.append("        %sfn %s(&self, %s) -> %s;" % ("async " if m["asy"] else "", m["name"], argdecl, g.ty(m["ret"])))
        mods.append("""pub mod led_%s {
    use super::*;
    %s%s#[savefile_abi_exportable(version = %d)]
    pub trait Led {
%s
    }
}
""" % (rid, lis, "#[async_trait::async_trait]\n    " if isasync else "", r["latest"], "\n".join(tm)))
        led_arms.append('        "%s" => savefile_abi::verify_compatiblity::<dyn led_%s::Led>(path),' % (rid, rid))
    for f in sorted(fams):
        versions = fams[f]["versions"]
        for v, sigs in enumerate(versions):
            mod = "f%d_v%d" % (f, v)
            tm, im, cm, pm = [], [], [], []
            nested = []
            for s in sigs:
                kind = s.get("kind", "plain")
                if kind == "fut":
                    # the value comes back through a boxed future that the caller polls
                    ty = g.ty(s["args"][0])
                    nm = s["name"]
                    fty = "std::pin::Pin<Box<dyn std::future::Future<Output = %s>>>" % ty
                    tm.append("        fn %s(&self, a0: %s) -> %s;" % (nm, ty, fty))
                    im.append("        fn %s(&self, a0: %s) -> %s { vcommon::abi::log(\"%s\", vec![vcommon::Model::to_model(&a0)]); let r: %s = vcommon::abi::next_ret(); Box::pin(async move { r }) }" % (nm, ty, fty, nm, ty))
                    cm.append('                "%s" => vcommon::Model::to_model(&block_on(self.0.%s(<%s as vcommon::Model>::from_model(&a[0])))),' % (nm, nm, ty))
                    continue
                if kind != "plain":
                    # the payload type travels inside a nested exported interface (kind sink) or a closure (kind fn)
                    ty = g.ty(s["args"][0])
                    nm = s["name"]
                    if kind == "sink":
                        nested.append("    #[savefile_abi_exportable(version = %d)]\n    pub trait Sink_%s {\n        fn put(&mut self, r: %s) -> %s;\n    }" % (v, nm, ty, ty))
                        tm.append("        fn %s(&self, s: &mut dyn Sink_%s, a0: %s) -> %s;" % (nm, nm, ty, ty))
                        im.append("        fn %s(&self, s: &mut dyn Sink_%s, a0: %s) -> %s { vcommon::abi::log(\"%s\", vec![vcommon::Model::to_model(&a0)]); s.put(a0) }" % (nm, nm, ty, ty, nm))
                        cm.append('''                "%s" => {
                    struct S;
                    impl Sink_%s for S {
                        fn put(&mut self, r: %s) -> %s { vcommon::abi::log("cb:%s", vec![vcommon::Model::to_model(&r)]); r }
                    }
                    let mut s = S;
                    vcommon::Model::to_model(&self.0.%s(&mut s, <%s as vcommon::Model>::from_model(&a[0])))
                }''' % (nm, nm, ty, ty, nm, nm, ty))
                    else:
                        tm.append("        fn %s(&self, f: &dyn Fn(%s) -> %s, a0: %s) -> %s;" % (nm, ty, ty, ty, ty))
                        im.append("        fn %s(&self, f: &dyn Fn(%s) -> %s, a0: %s) -> %s { vcommon::abi::log(\"%s\", vec![vcommon::Model::to_model(&a0)]); f(a0) }" % (nm, ty, ty, ty, ty, nm))
                        cm.append('''                "%s" => {
                    let f = |r: %s| -> %s { vcommon::abi::log("cb:%s", vec![vcommon::Model::to_model(&r)]); r };
                    vcommon::Model::to_model(&self.0.%s(&f, <%s as vcommon::Model>::from_model(&a[0])))
                }''' % (nm, ty, ty, nm, nm, ty))
                    continue
                refs = set(s["refs"])
                argdecl, argto, argfrom = [], [], []
                for k, t in enumerate(s["args"]):
                    ty = g.ty(t)
                    byref = (k + 1) in refs
                    argdecl.append("a%d: %s%s" % (k, "&" if byref else "", ty))
                    argto.append("vcommon::Model::to_model(%sa%d)" % ("" if byref else "&", k))
                    argfrom.append("%s<%s as vcommon::Model>::from_model(&a[%d])" % ("&" if byref else "", ty, k))
                    schema_arms.append('        (%d, %d, "%s", %d) => savefile::get_schema::<%s>(%d),' % (f, v, s["name"], k, ty, v))
                rty = g.ty(s["ret"])
                tm.append("        fn %s(&self, %s) -> %s;" % (s["name"], ", ".join(argdecl), rty))
                im.append("        fn %s(&self, %s) -> %s { vcommon::abi::log(\"%s\", vec![%s]); vcommon::abi::next_ret() }" % (
                    s["name"], ", ".join(argdecl), rty, s["name"], ", ".join(argto)))
                cm.append('                "%s" => vcommon::Model::to_model(&self.0.%s(%s)),' % (s["name"], s["name"], ", ".join(argfrom)))
            mods.append("""pub mod %s {
    use super::*;
%s
    #[savefile_abi_exportable(version = %d)]
    pub trait Iface {
%s
    }
    pub struct Impl;
    impl Iface for Impl {
%s
    }
    pub struct Conn(pub AbiConnection<dyn Iface>);
    impl vcommon::abi::Caller for Conn {
        fn call(&self, m: &str, a: &[vcommon::MV]) -> vcommon::MV {
            match m {
%s
                other => panic!("harness: no method {} in the caller interface", other),
            }
        }
        fn passable(&self, m: &str, k: usize) -> bool { self.0.get_arg_passable_by_ref(m, k) }
    }
}
""" % (mod, "\n".join(nested), v, "\n".join(tm), "\n".join(im), "\n".join(cm)))
        n = len(versions)
        for i in range(n):
            for j in range(n):
                arms.append("""        (%d, %d, %d) => unsafe {
            AbiConnection::<dyn f%d_v%d::Iface>::from_boxed_trait_for_test(<dyn f%d_v%d::Iface as AbiExportable>::ABI_ENTRY,
                Box::new(f%d_v%d::Impl) as Box<dyn f%d_v%d::Iface>)
        }.map(|c| Box::new(f%d_v%d::Conn(c)) as Box<dyn vcommon::abi::Caller>),""" % (f, i, j, f, i, f, j, f, j, f, j, f, i))
    src = ["#![allow(dead_code, unused_imports, non_camel_case_types, clippy::all)]",
           "//! GENERATED by gen/gen_abi.py from TLC output (AbiVer.tla) - do not edit.",
           "use savefile::prelude::*;", "use savefile_derive::Savefile;", "use savefile_derive::savefile_abi_exportable;",
           "use savefile_abi::{AbiConnection, AbiExportable};", ""]
    src += [g.defs[n] for n in g.order]
    src.append("""/// polls a future to completion on this thread (the futures of the generated implementations are ready at once)
pub fn block_on<T>(mut f: std::pin::Pin<Box<dyn std::future::Future<Output = T>>>) -> T {
    struct W;
    impl std::task::Wake for W {
        fn wake(self: std::sync::Arc<Self>) {}
    }
    let waker = std::task::Waker::from(std::sync::Arc::new(W));
    let mut cx = std::task::Context::from_waker(&waker);
    for _ in 0..1000 {
        if let std::task::Poll::Ready(v) = f.as_mut().poll(&mut cx) {
            return v;
        }
    }
    panic!("harness: future still pending after 1000 polls")
}
""")
    src += mods
    src.append("pub fn connect(fam: u32, i: u32, j: u32) -> Result<Box<dyn vcommon::abi::Caller>, SavefileError> {\n    match (fam, i, j) {")
    src += arms
    src.append('        _ => panic!("harness: unknown (family, i, j)"),\n    }\n}')
    src.append("pub fn ledger_verify(rev: &str, path: &str) -> Result<(), SavefileError> {\n    match rev {")
    src += led_arms
    src.append('        _ => panic!("harness: unknown revision"),\n    }\n}')
    src.append("pub fn arg_schema(fam: u32, v: u32, method: &str, k: usize) -> Schema {\n    match (fam, v, method, k) {")
    src += schema_arms
    src.append('        _ => panic!("harness: unknown argument"),\n    }\n}')
    cargo = (CARGO % "genabi").replace("@REPO@", os.environ.get("VERIF_REPO", "/repo")).replace('path = "../../common"', 'path = "../common"')
    cargo += 'savefile-abi = { path = "%s/savefile-abi" }\nasync-trait = "0.1"\n' % os.environ.get("VERIF_REPO", "/repo")
    write_if_changed(os.path.join(out, "Cargo.toml"), cargo)
    ch = write_if_changed(os.path.join(out, "src", "lib.rs"), "\n".join(src) + "\n")
    print(json.dumps({"families": len(fams), "revisions": len(revs), "derived": len(g.order), "changed": ch}))

if __name__ == "__main__":
    main()

#!/usr/bin/env python3
"""Generate Rust sources from the type descriptors that occur in TLC's REPLAY records.

Input : ndjson of records having a field "t" (descriptor, see spec/Wire.tla) or "ts" (list of descriptors)
Output: a crate  <outdir>/{Cargo.toml,src/lib.rs}  with one #[derive(Savefile)] type per struct/enum
        descriptor and   pub fn registry() -> Vec<vcommon::Entry>.
The output is a deterministic function of the set of descriptors (files are only rewritten when changed).
"""
import sys, json, hashlib, os

INF = 999

def canon(t):
    return json.dumps(t, sort_keys=True, separators=(',', ':'))

PRIM = {"unit": "()"}
LIBS = {
    "ArcStr": "std::sync::Arc<str>", "ArrayString": "arrayvec::ArrayString<32>", "PathBuf": "std::path::PathBuf", "IpAddr": "std::net::IpAddr",
    "SocketAddr": "std::net::SocketAddr", "Duration": "std::time::Duration", "SystemTime": "std::time::SystemTime",
    "IoError": "std::io::Error", "Canary1": "savefile::Canary1", "DateTimeUtc": "chrono::DateTime<chrono::Utc>",
    "BitVec": "bit_vec::BitVec", "BitSet": "bit_set::BitSet", "BitVec08": "bit_vec08::BitVec", "BitSet08": "bit_set08::BitSet",
    "PhantomData": "std::marker::PhantomData<u8>", "RecTree": "vcommon::RecTree", "RecList": "vcommon::RecList",
}
for a in ["Bool", "U8", "I8", "U16", "I16", "U32", "I32", "U64", "I64", "Usize", "Isize"]:
    LIBS["Atomic" + a] = "std::sync::atomic::Atomic" + a
SEQ = {
    "Vec": "Vec<{}>", "VecDeque": "std::collections::VecDeque<{}>", "BoxSlice": "Box<[{}]>", "ArcSlice": "std::sync::Arc<[{}]>",
    "SmallVec": "smallvec::SmallVec<[{}; 4]>", "ArrayVec": "arrayvec::ArrayVec<{}, 8>", "BTreeSet": "std::collections::BTreeSet<{}>",
    "HashSet": "std::collections::HashSet<{}>", "IndexSet": "indexmap::IndexSet<{}>", "FxHashSet": "rustc_hash::FxHashSet<{}>",
    "BinaryHeap": "std::collections::BinaryHeap<{}>",
}
BOX = {
    "Box": "Box<{}>", "Rc": "std::rc::Rc<{}>", "Arc": "std::sync::Arc<{}>", "Cell": "std::cell::Cell<{}>",
    "RefCell": "std::cell::RefCell<{}>", "Mutex": "parking_lot::Mutex<{}>", "StdMutex": "std::sync::Mutex<{}>",
    "RwLock": "parking_lot::RwLock<{}>", "Cow": "std::borrow::Cow<'static, {}>",
}
MAP = {
    "BTreeMap": "std::collections::BTreeMap<{}, {}>", "HashMap": "std::collections::HashMap<{}, {}>",
    "IndexMap": "indexmap::IndexMap<{}, {}>", "FxHashMap": "rustc_hash::FxHashMap<{}, {}>",
}

class Gen:
    def __init__(self):
        self.defs = {}      # ident -> source text
        self.order = []
        self.entries = {}   # canon key -> (rust type expr, offs expr, fsizes expr)

    def ident(self, t, prefix):
        return prefix + hashlib.sha1(canon(t).encode()).hexdigest()[:12]

    def ty(self, t):
        k = t["k"]
        if k == "p":
            return PRIM.get(t["s"], t["s"])
        if k == "str":
            return "String"
        if k == "lib":
            return LIBS[t["s"]]
        if k == "vec":
            return SEQ[t["s"]].format(self.ty(t["ts"][0]))
        if k == "arr":
            return "[{}; {}]".format(self.ty(t["ts"][0]), t["n"])
        if k == "opt":
            return "Option<{}>".format(self.ty(t["ts"][0]))
        if k == "res":
            return "Result<{}, {}>".format(self.ty(t["ts"][0]), self.ty(t["ts"][1]))
        if k == "box":
            inner = t["ts"][0]
            if t["s"] == "Cow" and inner["k"] == "str":
                return "std::borrow::Cow<'static, str>"
            return BOX[t["s"]].format(self.ty(inner))
        if k == "tup" and t["s"] == "Range":
            return "std::ops::Range<{}>".format(self.ty(t["ts"][0]))
        if k == "tup":
            return "(" + "".join(self.ty(x) + "," for x in t["ts"]) + ")"
        if k == "map":
            return MAP[t["s"]].format(self.ty(t["ts"][0]), self.ty(t["ts"][1]))
        if k == "struct":
            return self.struct(t)
        if k == "enum":
            return self.enum(t)
        raise Exception("unknown descriptor kind " + k)

    # ---- fields -------------------------------------------------------
    def field_decl(self, owner, i, ft, a, named):
        """returns (attribute lines, type expr, helper items)"""
        attrs, helpers = [], []
        base = self.ty(ft)
        tyx = base
        if a["rm"] == "removed":
            tyx = "savefile::Removed<{}>".format(base)
        elif a["rm"] == "abi":
            tyx = "savefile::AbiRemoved<{}>".format(base)
        if a["ig"]:
            attrs.append("#[savefile_ignore]")
        if a.get("ii"):
            attrs.append("#[savefile_introspect_ignore]")
        if a.get("ik"):
            attrs.append("#[savefile_introspect_key]")
        if not (a["from"] == 0 and a["to"] == INF):
            rng = "{}..{}".format(a["from"], "" if a["to"] == INF else a["to"])
            attrs.append('#[savefile_versions="{}"]'.format(rng))
        if a["af"] <= a["at"]:
            alias = "Old_{}_{}".format(owner, i)
            conv = "conv_{}_{}".format(owner, i)
            helpers.append("#[allow(non_camel_case_types)] pub type {} = {};".format(alias, self.ty(a["asty"])))
            helpers.append("#[allow(non_snake_case)] pub fn {}(o: {}) -> {} {{ vcommon::convert(&o, {}) }}".format(conv, alias, base, json.dumps(canon(ft))))
            attrs.append('#[savefile_versions_as="{}..{}:{}:{}"]'.format(a["af"], a["at"], conv, alias))
        if a["rm"] == "no" and a["df"] in ("val", "fn"):
            fn = "wit_{}_{}".format(owner, i)
            helpers.append("#[allow(non_snake_case)] pub fn {}() -> {} {{ vcommon::witness::<{}>({}) }}".format(
                fn, base, base, json.dumps(canon(ft))))
            if a["df"] == "fn":
                attrs.append('#[savefile_default_fn="{}"]'.format(fn))
            else:
                attrs.append('#[savefile_default_val="{}"]'.format(self.witness_literal(ft, fn)))
        return attrs, tyx, helpers

    def witness_literal(self, ft, fn):
        # savefile_default_val takes an expression; integers use the literal 7 (= Wire!WitnessOf), others call the fn
        if ft["k"] == "p" and ft["s"] in ("u8", "i8", "u16", "i16", "u32", "i32", "u64", "i64", "u128", "i128", "usize", "isize"):
            return "7"
        return fn + "()"

    def struct(self, t):
        name = self.ident(t, "S")
        if name in self.defs:
            return getattr(self, "generic_inst", {}).get(name, name)
        tuple_struct = t["n"] == 1
        generic = t["n"] == 2        # S<T> { f0: T, .. } used as S<type of the first field>
        if generic:
            self.defs[name] = None
            return self.generic_struct(name, t)
        self.defs[name] = None
        lines, helpers, fdecl, frm, tom = [], [], [], [], []
        for i, (ft, a) in enumerate(zip(t["ts"], t["fa"])):
            attrs, tyx, hs = self.field_decl(name, i, ft, a, not tuple_struct)
            helpers += hs
            acc = str(i) if tuple_struct else "f{}".format(i)
            if tuple_struct:
                fdecl.append("    {} pub {},".format(" ".join(attrs), tyx))
                frm.append("vcommon::Model::from_model(&v.vs[{}])".format(i))
            else:
                fdecl.append("    {} pub f{}: {},".format(" ".join(attrs), i, tyx))
                frm.append("f{}: vcommon::Model::from_model(&v.vs[{}])".format(i, i))
            tom.append("vcommon::Model::to_model(&self.{})".format(acc))
        reprl = "#[repr(C)]\n" if t["s"] == "C" else ""
        src = "#[derive(Savefile, Debug)]\n" + reprl
        if tuple_struct:
            src += "pub struct {}(\n{}\n);\n".format(name, "\n".join(fdecl))
            ctor = "{}({})".format(name, ", ".join(frm))
        elif not t["ts"]:
            src += "pub struct {} {{}}\n".format(name)
            ctor = "{} {{}}".format(name)
        else:
            src += "pub struct {} {{\n{}\n}}\n".format(name, "\n".join(fdecl))
            ctor = "{} {{ {} }}".format(name, ", ".join(frm))
        src += ("impl vcommon::Model for {n} {{\n"
                "    #[allow(unused_variables)] fn from_model(v: &vcommon::MV) -> Self {{ {c} }}\n"
                "    fn to_model(&self) -> vcommon::MV {{ vcommon::MV::l(vec![{t}]) }}\n}}\n").format(n=name, c=ctor, t=", ".join(tom))
        src += self.default_impl_struct(name, t, tuple_struct)
        src += "\n".join(helpers) + "\n"
        self.defs[name] = src
        self.order.append(name)
        return name

    def generic_struct(self, name, t):
        first = self.ty(t["ts"][0])
        rest = [self.ty(x) for x in t["ts"][1:]]
        fdecl = ["    pub f0: T,"] + ["    pub f{}: {},".format(i + 1, r) for i, r in enumerate(rest)]
        reprl = "#[repr(C)]\n" if t["s"] == "C" else ""
        src = "#[derive(Savefile, Debug)]\n" + reprl + "pub struct {}<T> {{\n{}\n}}\n".format(name, "\n".join(fdecl))
        n = len(t["ts"])
        src += ("impl<T: vcommon::Model> vcommon::Model for {n}<T> {{\n"
                "    fn from_model(v: &vcommon::MV) -> Self {{ {n} {{ {c} }} }}\n"
                "    fn to_model(&self) -> vcommon::MV {{ vcommon::MV::l(vec![{t}]) }}\n}}\n").format(
                    n=name, c=", ".join("f{}: vcommon::Model::from_model(&v.vs[{}])".format(i, i) for i in range(n)),
                    t=", ".join("vcommon::Model::to_model(&self.f{})".format(i) for i in range(n)))
        if all(defaultable(x) for x in t["ts"]):
            src += "impl<T: Default> Default for {n}<T> {{ fn default() -> Self {{ {n} {{ {b} }} }} }}\n".format(
                n=name, b=", ".join("f{}: Default::default()".format(i) for i in range(n)))
        self.defs[name] = src
        self.order.append(name)
        self.generic_inst = getattr(self, "generic_inst", {})
        self.generic_inst[name] = "{}<{}>".format(name, first)
        return self.generic_inst[name]

    def default_impl_struct(self, name, t, tuple_struct):
        # Default (needed when the struct is the type of an added field): every field from its own Default
        if not all(defaultable(x) for x in t["ts"]):
            return ""
        dx = [default_expr(a) for a in t["fa"]]
        if tuple_struct:
            body = "{}({})".format(name, ", ".join(dx))
        else:
            body = "{} {{ {} }}".format(name, ", ".join("f{}: {}".format(i, dx[i]) for i in range(len(t["ts"]))))
        return "impl Default for {} {{ fn default() -> Self {{ {} }} }}\n".format(name, body)

    def enum(self, t):
        name = self.ident(t, "E")
        if name in self.defs:
            return name
        self.defs[name] = None
        helpers, vdecl, frm, tom = [], [], [], []
        if t["n"] > 0:
            for i in range(t["n"]):
                vdecl.append("    V{},".format(i))
            reprl = "#[repr({})]\n".format(t["s"]) if t["s"] else ""
            src = "#[derive(Savefile, Debug, Clone, Copy, PartialEq)]\n{}pub enum {} {{\n{}\n}}\n".format(
                reprl, name, "\n".join(vdecl))
            table = "ALL_" + name
            src += "static {}: [{}; {}] = [{}];\n".format(table, name, t["n"], ", ".join("{}::V{}".format(name, i) for i in range(t["n"])))
            src += ("impl vcommon::Model for {n} {{\n"
                    "    fn from_model(v: &vcommon::MV) -> Self {{ {tb}[v.n as usize] }}\n"
                    "    fn to_model(&self) -> vcommon::MV {{ vcommon::MV::ev(*self as usize, vec![]) }}\n}}\n").format(
                        n=name, tb=table)
            src += "impl Default for {n} {{ fn default() -> Self {{ {n}::V0 }} }}\n".format(n=name)
            self.defs[name] = src
            self.order.append(name)
            return name
        for vi, var in enumerate(t["ts"]):
            fl, nfl, binds, ctor_args, tos = [], [], [], [], []
            for i, (ft, a) in enumerate(zip(var["ts"], var["fa"])):
                attrs, tyx, hs = self.field_decl("{}_{}".format(name, vi), i, ft, a, False)
                helpers += hs
                fl.append("{} {}".format(" ".join(attrs), tyx))
                nfl.append("{} f{}: {}".format(" ".join(attrs), i, tyx))
                binds.append("x{}".format(i))
                ctor_args.append("vcommon::Model::from_model(&v.vs[{}])".format(i))
                tos.append("vcommon::Model::to_model(x{})".format(i))
            vattr = ""
            if var["n"] > 0:
                vattr = '#[savefile_versions="{}.."] '.format(var["n"])
            named = var["s"] == "{}"
            disc = " = {}".format(var["s"]) if var["s"] not in ("", "{}") else ""
            if var["ts"] and named:
                vdecl.append("    {}V{} {{ {} }},".format(vattr, vi, ", ".join(nfl)))
                frm.append("{} => {}::V{} {{ {} }},".format(vi, name, vi, ", ".join("f{}: {}".format(i, c) for i, c in enumerate(ctor_args))))
                tom.append("{}::V{} {{ {} }} => vcommon::MV::ev({}, vec![{}]),".format(name, vi, ", ".join("f{}: x{}".format(i, i) for i in range(len(binds))), vi, ", ".join(tos)))
            elif var["ts"]:
                vdecl.append("    {}V{}({}){},".format(vattr, vi, ", ".join(fl), disc))
                frm.append("{} => {}::V{}({}),".format(vi, name, vi, ", ".join(ctor_args)))
                tom.append("{}::V{}({}) => vcommon::MV::ev({}, vec![{}]),".format(name, vi, ", ".join(binds), vi, ", ".join(tos)))
            else:
                vdecl.append("    {}V{}{},".format(vattr, vi, disc))
                frm.append("{} => {}::V{},".format(vi, name, vi))
                tom.append("{}::V{} => vcommon::MV::ev({}, vec![]),".format(name, vi, vi))
        reprl = "#[repr({})]\n".format(t["s"]) if t["s"] else ""
        src = "#[derive(Savefile, Debug)]\n{}pub enum {} {{\n{}\n}}\n".format(reprl, name, "\n".join(vdecl))
        src += ("impl vcommon::Model for {n} {{\n"
                "    #[allow(unused_variables)] fn from_model(v: &vcommon::MV) -> Self {{ match v.n {{ {f} _ => panic!(\"bad variant in model value\") }} }}\n"
                "    fn to_model(&self) -> vcommon::MV {{ match self {{ {t} }} }}\n}}\n").format(n=name, f=" ".join(frm), t=" ".join(tom))
        first = t["ts"][0]
        if all(defaultable(x) for x in first["ts"]):
            args = ", ".join(default_expr(a) for a in first["fa"])
            if first["s"] == "{}" and first["ts"]:
                body = " {{ {} }}".format(", ".join("f{}: {}".format(i, default_expr(a)) for i, a in enumerate(first["fa"])))
            else:
                body = "({})".format(args) if first["ts"] else ""
            src += "impl Default for {n} {{ fn default() -> Self {{ {n}::V0{a} }} }}\n".format(n=name, a=body)
        src += "\n".join(helpers) + "\n"
        self.defs[name] = src
        self.order.append(name)
        return name

    def add(self, t):
        key = canon(t)
        if key in self.entries:
            return
        rust = self.ty(t)
        offs, fsizes = [], []
        if t["k"] == "struct":
            for i, ft in enumerate(t["ts"]):
                acc = str(i) if t["n"] == 1 else "f{}".format(i)
                offs.append("std::mem::offset_of!({}, {})".format(rust, acc))
                fsizes.append("std::mem::size_of::<{}>()".format(self.field_rust(t, i)))
        elif t["k"] == "tup":
            for i, ft in enumerate(t["ts"]):
                offs.append("std::mem::offset_of!({}, {})".format(rust, ("start", "end")[i] if t["s"] == "Range" else i))
                fsizes.append("std::mem::size_of::<{}>()".format(self.ty(ft)))
        self.entries[key] = (rust, offs, fsizes)
        # composite children are registered too, so that layout trees can be resolved recursively
        kids = list(t["ts"])
        if t["k"] == "enum":
            kids = [f for var in t["ts"] for f in var["ts"]]
        for c in kids:
            if c["k"] in ("struct", "tup", "enum", "arr") or (c["k"] == "box" and c["s"] == "Cell"):
                self.add(c)

    def field_rust(self, t, i):
        a = t["fa"][i]
        base = self.ty(t["ts"][i])
        if a["rm"] == "removed":
            return "savefile::Removed<{}>".format(base)
        if a["rm"] == "abi":
            return "savefile::AbiRemoved<{}>".format(base)
        return base

def big_repr(t):
    if t["s"]:
        return t["s"]
    return "u8" if t["n"] <= 256 else ("u16" if t["n"] <= 65536 else "u32")

def default_expr(a):
    if a["rm"] == "removed":
        return "savefile::Removed::new()"
    if a["rm"] == "abi":
        return "savefile::AbiRemoved::new()"
    return "Default::default()"

def no_introspect(t):
    if t["k"] == "box" and t["s"] == "Cell":
        return True
    if t["k"] == "lib" and t["s"] == "IoError":
        return True
    return any(no_introspect(x) for x in t["ts"])

NODEFAULT = {"IoError", "SystemTime", "IpAddr", "SocketAddr", "Canary1x"}
def defaultable(t):
    k = t["k"]
    if k == "lib":
        return t["s"] not in NODEFAULT
    if k == "res":
        return False
    if k == "arr":
        return t["n"] <= 32 and defaultable(t["ts"][0])
    if k in ("vec", "map", "opt"):
        return t["s"] not in ("ArcSlice",)
    if k in ("box", "tup"):
        return all(defaultable(x) for x in t["ts"])
    if k == "struct":
        return all(defaultable(x) for x in t["ts"])
    if k == "enum":
        return t["n"] == 0 and all(defaultable(x) for x in t["ts"][0]["ts"])
    return True

def write_if_changed(path, text):
    if os.path.exists(path) and open(path).read() == text:
        return False
    os.makedirs(os.path.dirname(path), exist_ok=True)
    open(path, "w").write(text)
    return True

def emit_crate(out, crate, descs):
    g = Gen()
    for key in sorted(descs):
        g.add(descs[key])
    nchunks = 4
    keys = sorted(g.entries)
    src = ["#![allow(dead_code, unused_imports, non_camel_case_types, clippy::all)]",
           "//! GENERATED by gen/gen_types.py from TLC output — do not edit.",
           "use savefile::prelude::*;", "use savefile_derive::Savefile;", ""]
    for name in g.order:
        src.append(g.defs[name])
    for c in range(nchunks):
        src.append("#[inline(never)] fn registry_{}(r: &mut Vec<vcommon::Entry>) {{".format(c))
        for key in keys[c::nchunks]:
            rust, offs, fsizes = g.entries[key]
            src.append("    r.push(vcommon::{}::<{}>({}, {}, vec![{}], vec![{}]));".format(
                "entry_ni" if no_introspect(json.loads(key)) else "entry", rust,
                json.dumps(key), json.dumps(rust), ", ".join(offs), ", ".join(fsizes)))
        src.append("}")
    src.append("pub fn registry() -> Vec<vcommon::Entry> {\n    let mut r = Vec::new();")
    for c in range(nchunks):
        src.append("    registry_{}(&mut r);".format(c))
    src.append("    r\n}")
    cargo = (CARGO % crate).replace("@REPO@", os.environ.get("VERIF_REPO", "/repo"))
    write_if_changed(os.path.join(out, "Cargo.toml"), cargo)
    changed = write_if_changed(os.path.join(out, "src", "lib.rs"), "\n".join(src) + "\n")
    return len(keys), len(g.order), changed

CARGO = """[package]
name = "%s"
version = "0.1.0"
edition = "2021"

[lib]
path = "src/lib.rs"

[dependencies]
vcommon = { path = "../../common" }
savefile = { path = "@REPO@/savefile", features = ["encryption", "compression", "bit-set", "bit-vec", "rustc-hash", "serde_derive"] }
savefile-derive = { path = "@REPO@/savefile-derive" }
indexmap = "2.6"
smallvec = "1"
arrayvec = "0.7"
bit-vec = "0.6"
bit-set = "0.5"
bit-vec08 = { package = "bit-vec", version = "0.8" }
bit-set08 = { package = "bit-set", version = "0.8" }
rustc-hash = "2.1"
chrono = "0.4"
parking_lot = "0.12"
"""

def main():
    """gen_types.py <outdir> <crate> <nshards> <records.ndjson>...
    writes <outdir>/s<i>/ (crate <crate>_s<i>) and <outdir>/all/ (crate <crate>) whose registry() concatenates"""
    out, crate, nsh = sys.argv[1], sys.argv[2], int(sys.argv[3])
    descs = {}
    for path in sys.argv[4:]:
        for line in open(path):
            line = line.strip()
            if not line:
                continue
            rec = json.loads(line)
            for t in ([rec["t"]] if "t" in rec else []) + rec.get("ts", []):
                descs[canon(t)] = t
    shards = [dict() for _ in range(nsh)]
    for key, t in descs.items():
        shards[int(hashlib.sha1(key.encode()).hexdigest()[:8], 16) % nsh][key] = t
    tot = [0, 0, False]
    for i, sh in enumerate(shards):
        n, d, ch = emit_crate(os.path.join(out, "s%d" % i), "%s_s%d" % (crate, i), sh)
        tot = [tot[0] + n, tot[1] + d, tot[2] or ch]
    # shard crates of an earlier run with more shards are no longer part of the build
    import shutil, re
    for d in os.listdir(out):
        m = re.fullmatch(r"s(\d+)", d)
        if m and int(m.group(1)) >= nsh:
            shutil.rmtree(os.path.join(out, d))
    deps = "\n".join('%s_s%d = { path = "../s%d" }' % (crate, i, i) for i in range(nsh))
    write_if_changed(os.path.join(out, "all", "Cargo.toml"),
        '[package]\nname = "%s"\nversion = "0.1.0"\nedition = "2021"\n\n[dependencies]\nvcommon = { path = "../../common" }\n%s\n' % (crate, deps))
    body = "pub fn registry() -> Vec<vcommon::Entry> {\n    let mut r = Vec::new();\n" + \
        "".join("    r.extend(%s_s%d::registry());\n" % (crate, i) for i in range(nsh)) + "    r\n}\n"
    write_if_changed(os.path.join(out, "all", "src", "lib.rs"), body)
    print(json.dumps({"types": tot[0], "derived": tot[1], "changed": tot[2], "shards": nsh}))

if __name__ == "__main__":
    main()

//! C16: several real threads create and use ABI connections; the hook events (cfg avl_savefile_verif) are recorded
//! and written as ONE observation for CacheTrace.tla.  One process = one run (the caches are process-global, so
//! "first use" happens once per process).
use crate::calls::{self_test_iface, CallIfaceDyn, NarrowDyn};
use plugin_iface::{PlugCb, PlugIface};
use savefile_abi::AbiConnection;
use serde_json::{json, Value};
use std::cell::Cell;
use std::sync::atomic::{AtomicU64, Ordering};
use std::sync::{Arc, Barrier, Mutex};

thread_local! { static TID: Cell<u64> = Cell::new(0); }
static SEQ: AtomicU64 = AtomicU64::new(0);
static EVENTS: Mutex<Vec<(u64, u64, &'static str, u64)>> = Mutex::new(Vec::new());
static JITTER: AtomicU64 = AtomicU64::new(0);

/// > 0: the next first-use negotiation is slow -- its holder keeps the template mutex for that many milliseconds
/// (a slow peer, a slow dlopen, a descheduled thread); other threads simply have to wait
static SLOW_NEGOTIATION_MS: AtomicU64 = AtomicU64::new(0);

fn emit(label: &'static str, key: u64) {
    let tid = TID.with(|t| t.get());
    let seq = SEQ.fetch_add(1, Ordering::SeqCst);
    EVENTS.lock().unwrap().push((seq, tid, label, key));
    if label == "InterrogateVersion" {
        let ms = SLOW_NEGOTIATION_MS.swap(0, Ordering::SeqCst);
        if ms > 0 {
            std::thread::sleep(std::time::Duration::from_millis(ms));
        }
    }
    // perturb the schedule a little (seeded), never while this function holds the event mutex
    let j = JITTER.fetch_add(0x9E3779B97F4A7C15, Ordering::Relaxed);
    if (j >> 60) & 3 == 0 {
        std::thread::yield_now();
    }
}

struct Cb(u32);
impl PlugCb for Cb {
    fn get(&self) -> u32 {
        self.0
    }
}

// ---- static fact the model assumes: only connections of Sync implementations can be shared between threads ------
#[savefile_derive::savefile_abi_exportable(version = 0)]
pub trait SendOnly: Send {
    fn bump(&self) -> u32;
}
struct Probe<T: ?Sized>(std::marker::PhantomData<T>);
trait NotSyncDefault {
    const IS_SYNC: bool = false;
}
impl<T: ?Sized> NotSyncDefault for Probe<T> {}
impl<T: ?Sized + Sync> Probe<T> {
    // an inherent constant takes precedence over the trait's when the bound holds
    const IS_SYNC: bool = true;
}
pub fn non_sync_connection_is_sync() -> bool {
    Probe::<AbiConnection<dyn SendOnly>>::IS_SYNC
}

pub fn run(seed: u64, nthreads: usize, plugin: &str) -> Value {
    savefile_abi::verif_hooks::SINK.set(Box::new(emit)).ok();
    JITTER.store(seed.wrapping_mul(0x2545F4914F6CDD1D) | 1, Ordering::Relaxed);
    // every fourth run: the first negotiation holds the template mutex for a long time
    SLOW_NEGOTIATION_MS.store(if seed % 4 == 3 { 700 } else { 0 }, Ordering::SeqCst);
    let barrier = Arc::new(Barrier::new(nthreads));
    let results_ok = Arc::new(Mutex::new(true));
    let finished = Arc::new(AtomicU64::new(0));
    let mut handles = vec![];
    for t in 0..nthreads {
        let barrier = barrier.clone();
        let results_ok = results_ok.clone();
        let finished = finished.clone();
        let plugin = plugin.to_string();
        handles.push(std::thread::spawn(move || {
            TID.with(|x| x.set(t as u64 + 1));
            let mut rng = seed.wrapping_add(t as u64 * 7919).wrapping_mul(6364136223846793005).wrapping_add(1442695040888963407);
            let mut next = || {
                rng = rng.wrapping_mul(6364136223846793005).wrapping_add(1442695040888963407);
                (rng >> 33) as usize
            };
            let mut ok = true;
            let mut calls: Vec<AbiConnection<CallIfaceDyn>> = vec![];
            let mut plugs: Vec<AbiConnection<dyn PlugIface>> = vec![];
            barrier.wait();
            for _ in 0..6 {
                match next() % 7 {
                    0 | 1 => {
                        emit("OpBegin:create", 1);
                        match self_test_iface() {
                            Ok(c) => calls.push(c),
                            Err(_) => ok = false,
                        }
                        emit("OpEnd:create", 1);
                    }
                    2 => {
                        emit("OpBegin:create", 2);
                        match AbiConnection::<NarrowDyn>::from_boxed_trait(crate::calls::narrow_impl()) {
                            Ok(c) => ok &= crate::calls::narrow_only(&c, 21) == 42,
                            Err(_) => ok = false,
                        }
                        emit("OpEnd:create", 2);
                    }
                    3 => {
                        emit("OpBegin:load", 3);
                        match AbiConnection::<dyn PlugIface>::load_shared_library(&plugin) {
                            Ok(c) => {
                                ok &= c.twice(4) == 8;
                                plugs.push(c);
                            }
                            Err(_) => ok = false,
                        }
                        emit("OpEnd:load", 3);
                    }
                    4 => {
                        if let Some(c) = calls.last() {
                            emit("OpBegin:call", 1);
                            ok &= crate::calls::call_add(c, 5) == 6;
                            emit("OpEnd:call", 1);
                        }
                    }
                    5 => {
                        // a call whose boxed-trait argument makes the implementation create a further connection
                        if let Some(c) = calls.last() {
                            emit("OpBegin:nested", 1);
                            ok &= crate::calls::call_take_obj(c, 77) == 77;
                            ok &= crate::calls::call_make_and_use_obj(c, 78) == 78;
                            emit("OpEnd:nested", 1);
                        }
                    }
                    _ => {
                        if let Some(p) = plugs.last() {
                            emit("OpBegin:nested", 3);
                            ok &= p.with_cb(Box::new(Cb(9))) == 10;
                            emit("OpEnd:nested", 3);
                        }
                    }
                }
            }
            drop(calls);
            drop(plugs);
            if !ok {
                *results_ok.lock().unwrap() = false;
            }
            finished.fetch_add(1, Ordering::SeqCst);
        }));
    }
    // deadlock detection: all threads must finish within the budget
    let t0 = std::time::Instant::now();
    while finished.load(Ordering::SeqCst) < nthreads as u64 && t0.elapsed().as_secs() < 20 {
        std::thread::sleep(std::time::Duration::from_millis(2));
    }
    let hung = finished.load(Ordering::SeqCst) < nthreads as u64;
    if !hung {
        for h in handles {
            let _ = h.join();
        }
    }
    let mut evs = EVENTS.lock().unwrap().clone();
    evs.sort();
    // keys (entry point addresses) are renamed to small integers in order of first appearance
    let mut names: Vec<u64> = vec![];
    let events: Vec<Value> = evs
        .iter()
        .map(|(_, tid, l, k)| {
            let k = if l.starts_with("Op") || *k == 0 {
                *k
            } else {
                match names.iter().position(|x| x == k) {
                    Some(i) => i as u64 + 1,
                    None => {
                        names.push(*k);
                        names.len() as u64
                    }
                }
            };
            json!({"t": tid, "l": l, "k": k})
        })
        .collect();
    // a connection to an implementation that is Send but not Sync must not be shareable (calls on it would race)
    let results = *results_ok.lock().unwrap() && !non_sync_connection_is_sync();
    json!({"seed": seed, "threads": nthreads, "events": events, "hung": hung, "results_ok": results,
           "sync_leak": non_sync_connection_is_sync()})
}


// =====================================================================================================================
// spec -> impl: a behaviour of Cache.tla (spec/CacheSched.tla) forced on the real threads.
// The hooks are gates: a thread passes the hook of label l only when the next entry of the schedule is (its id, l);
// before requesting a mutex (WantT / WantE) it is held back until its Lock entry is next.
// =====================================================================================================================
struct Sched {
    entries: Vec<(u64, String)>,
    ptr: usize,
    failed: Option<String>,
}
static SCHED: Mutex<Option<Sched>> = Mutex::new(None);
static SCHED_CV: std::sync::Condvar = std::sync::Condvar::new();
const GATE_BUDGET_MS: u64 = 15000;

/// blocks until the next schedule entry is (this thread, label); consumes it unless `peek`
fn gate(label: &str, peek: bool) {
    let tid = TID.with(|t| t.get());
    if tid == 0 {
        return; // not one of the scheduled threads
    }
    let t0 = std::time::Instant::now();
    let mut g = SCHED.lock().unwrap();
    loop {
        let s = g.as_mut().expect("schedule installed");
        if s.failed.is_some() {
            return; // free-run to the end once the schedule is lost
        }
        if s.ptr < s.entries.len() && s.entries[s.ptr].0 == tid && s.entries[s.ptr].1 == label {
            if !peek {
                s.ptr += 1;
                SCHED_CV.notify_all();
            }
            return;
        }
        // is this step something the model says this thread does NEXT at all?
        let my_next = s.entries[s.ptr.min(s.entries.len())..].iter().find(|e| e.0 == tid).map(|e| e.1.clone());
        if my_next.as_deref() != Some(label) {
            s.failed = Some(format!("thread {} arrives at {:?} but its next step in the model is {:?} (schedule position {})", tid, label, my_next, s.ptr));
            SCHED_CV.notify_all();
            return;
        }
        let left = GATE_BUDGET_MS.saturating_sub(t0.elapsed().as_millis() as u64);
        if left == 0 {
            let want = s.entries.get(s.ptr).cloned();
            s.failed = Some(format!("thread {} waited at {:?}: the schedule expects {:?} at position {} but that step never happened", tid, label, want, s.ptr));
            SCHED_CV.notify_all();
            return;
        }
        g = SCHED_CV.wait_timeout(g, std::time::Duration::from_millis(left.min(200))).unwrap().0;
    }
}
fn sched_hook(label: &'static str, _key: u64) {
    match label {
        "WantT" => gate("LockT", true),
        "WantE" => gate("LockE", true),
        "CreateInstance" => {}
        l => gate(l, false),
    }
}

/// rec: {progs: [[{op,k,k2}..]..], sched: [{t,l}..]}
pub fn run_schedule(rec: &Value, plugin: &str) -> Value {
    let entries: Vec<(u64, String)> = rec["sched"]
        .as_array()
        .unwrap()
        .iter()
        .filter(|e| e["l"] != "Symbol") // (no linearisation point of its own in the code: it happens between LockL and UnlockL)
        .map(|e| (e["t"].as_u64().unwrap(), e["l"].as_str().unwrap().to_string()))
        .collect();
    let total = entries.len();
    *SCHED.lock().unwrap() = Some(Sched { entries, ptr: 0, failed: None });
    savefile_abi::verif_hooks::SINK.set(Box::new(sched_hook)).ok();
    let progs = rec["progs"].as_array().unwrap().clone();
    let nthreads = progs.len();
    let finished = Arc::new(AtomicU64::new(0));
    let results_ok = Arc::new(Mutex::new(true));
    for (t, prog) in progs.into_iter().enumerate() {
        let finished = finished.clone();
        let results_ok = results_ok.clone();
        let plugin = plugin.to_string();
        std::thread::spawn(move || {
            TID.with(|x| x.set(t as u64 + 1));
            let mut ok = true;
            let mut calls: Vec<AbiConnection<CallIfaceDyn>> = vec![];
            let mut plugs: Vec<AbiConnection<dyn PlugIface>> = vec![];
            for op in prog.as_array().unwrap() {
                let (kind, k) = (op["op"].as_str().unwrap(), op["k"].as_u64().unwrap());
                gate("Start", false);
                match (kind, k) {
                    ("create", 1) => match self_test_iface() {
                        Ok(c) => calls.push(c),
                        Err(_) => ok = false,
                    },
                    ("create", 2) => match crate::calls::obj_connection(500 + t as u32) {
                        Ok(id) => ok &= id == 500 + t as u32,
                        Err(_) => ok = false,
                    },
                    ("load", 3) => match AbiConnection::<dyn PlugIface>::load_shared_library(&plugin) {
                        Ok(c) => plugs.push(c),
                        Err(_) => ok = false,
                    },
                    ("call", 1) => {
                        ok &= crate::calls::call_add(calls.last().expect("model guard"), 5) == 6;
                        gate("CallEnd", false);
                    }
                    ("call", 3) => {
                        ok &= plugs.last().expect("model guard").twice(4) == 8;
                        gate("CallEnd", false);
                    }
                    ("nested", 1) => {
                        // the boxed trait object makes the implementation create a connection of interface 2 during the call
                        ok &= crate::calls::call_take_obj(calls.last().expect("model guard"), 77) == 77;
                        gate("CallEnd", false);
                    }
                    other => panic!("harness: unknown op {:?}", other),
                }
                gate("OpDone", false);
            }
            drop(calls);
            drop(plugs);
            if !ok {
                *results_ok.lock().unwrap() = false;
            }
            finished.fetch_add(1, Ordering::SeqCst);
        });
    }
    let t0 = std::time::Instant::now();
    while finished.load(Ordering::SeqCst) < nthreads as u64 && t0.elapsed().as_secs() < 45 {
        std::thread::sleep(std::time::Duration::from_millis(1));
    }
    let hung = finished.load(Ordering::SeqCst) < nthreads as u64;
    let g = SCHED.lock().unwrap();
    let s = g.as_ref().unwrap();
    json!({"followed": s.ptr, "total": total, "failed": s.failed, "hung": hung, "results_ok": *results_ok.lock().unwrap()})
}

//! C16: several real threads create and use ABI connections; the hook events (cfg avl_savefile_verif) are recorded
//! and written as ONE observation for CacheTrace.tla.  One process = one run (the caches are process-global, so
//! "first use" happens once per process).
use crate::calls::{self_test_iface, CallIfaceDyn, NarrowDyn};
use plugin_iface::{PlugCb, PlugIface};
use savefile_abi::AbiConnection;
use serde_json::{json, Value};
use std::cell::Cell;
use std::sync::atomic::{AtomicU64, Ordering};
use std::sync::{Arc, Barrier, Mutex};

thread_local! { static TID: Cell<u64> = Cell::new(0); }
static SEQ: AtomicU64 = AtomicU64::new(0);
static EVENTS: Mutex<Vec<(u64, u64, &'static str, u64)>> = Mutex::new(Vec::new());
static JITTER: AtomicU64 = AtomicU64::new(0);

fn emit(label: &'static str, key: u64) {
    let tid = TID.with(|t| t.get());
    let seq = SEQ.fetch_add(1, Ordering::SeqCst);
    EVENTS.lock().unwrap().push((seq, tid, label, key));
    // perturb the schedule a little (seeded), never while this function holds the event mutex
    let j = JITTER.fetch_add(0x9E3779B97F4A7C15, Ordering::Relaxed);
    if (j >> 60) & 3 == 0 {
        std::thread::yield_now();
    }
}

struct Cb(u32);
impl PlugCb for Cb {
    fn get(&self) -> u32 {
        self.0
    }
}

// ---- static fact the model assumes: only connections of Sync implementations can be shared between threads ------
#[savefile_derive::savefile_abi_exportable(version = 0)]
pub trait SendOnly: Send {
    fn bump(&self) -> u32;
}
struct Probe<T: ?Sized>(std::marker::PhantomData<T>);
trait NotSyncDefault {
    const IS_SYNC: bool = false;
}
impl<T: ?Sized> NotSyncDefault for Probe<T> {}
impl<T: ?Sized + Sync> Probe<T> {
    // an inherent constant takes precedence over the trait's when the bound holds
    const IS_SYNC: bool = true;
}
pub fn non_sync_connection_is_sync() -> bool {
    Probe::<AbiConnection<dyn SendOnly>>::IS_SYNC
}

pub fn run(seed: u64, nthreads: usize, plugin: &str) -> Value {
    savefile_abi::verif_hooks::SINK.set(Box::new(emit)).ok();
    JITTER.store(seed.wrapping_mul(0x2545F4914F6CDD1D) | 1, Ordering::Relaxed);
    let barrier = Arc::new(Barrier::new(nthreads));
    let results_ok = Arc::new(Mutex::new(true));
    let finished = Arc::new(AtomicU64::new(0));
    let mut handles = vec![];
    for t in 0..nthreads {
        let barrier = barrier.clone();
        let results_ok = results_ok.clone();
        let finished = finished.clone();
        let plugin = plugin.to_string();
        handles.push(std::thread::spawn(move || {
            TID.with(|x| x.set(t as u64 + 1));
            let mut rng = seed.wrapping_add(t as u64 * 7919).wrapping_mul(6364136223846793005).wrapping_add(1442695040888963407);
            let mut next = || {
                rng = rng.wrapping_mul(6364136223846793005).wrapping_add(1442695040888963407);
                (rng >> 33) as usize
            };
            let mut ok = true;
            let mut calls: Vec<AbiConnection<CallIfaceDyn>> = vec![];
            let mut plugs: Vec<AbiConnection<dyn PlugIface>> = vec![];
            barrier.wait();
            for _ in 0..6 {
                match next() % 7 {
                    0 | 1 => {
                        emit("OpBegin:create", 1);
                        match self_test_iface() {
                            Ok(c) => calls.push(c),
                            Err(_) => ok = false,
                        }
                        emit("OpEnd:create", 1);
                    }
                    2 => {
                        emit("OpBegin:create", 2);
                        match AbiConnection::<NarrowDyn>::from_boxed_trait(crate::calls::narrow_impl()) {
                            Ok(c) => ok &= crate::calls::narrow_only(&c, 21) == 42,
                            Err(_) => ok = false,
                        }
                        emit("OpEnd:create", 2);
                    }
                    3 => {
                        emit("OpBegin:load", 3);
                        match AbiConnection::<dyn PlugIface>::load_shared_library(&plugin) {
                            Ok(c) => {
                                ok &= c.twice(4) == 8;
                                plugs.push(c);
                            }
                            Err(_) => ok = false,
                        }
                        emit("OpEnd:load", 3);
                    }
                    4 => {
                        if let Some(c) = calls.last() {
                            emit("OpBegin:call", 1);
                            ok &= crate::calls::call_add(c, 5) == 6;
                            emit("OpEnd:call", 1);
                        }
                    }
                    5 => {
                        // a call whose boxed-trait argument makes the implementation create a further connection
                        if let Some(c) = calls.last() {
                            emit("OpBegin:nested", 1);
                            ok &= crate::calls::call_take_obj(c, 77) == 77;
                            ok &= crate::calls::call_make_and_use_obj(c, 78) == 78;
                            emit("OpEnd:nested", 1);
                        }
                    }
                    _ => {
                        if let Some(p) = plugs.last() {
                            emit("OpBegin:nested", 3);
                            ok &= p.with_cb(Box::new(Cb(9))) == 10;
                            emit("OpEnd:nested", 3);
                        }
                    }
                }
            }
            drop(calls);
            drop(plugs);
            if !ok {
                *results_ok.lock().unwrap() = false;
            }
            finished.fetch_add(1, Ordering::SeqCst);
        }));
    }
    // deadlock detection: all threads must finish within the budget
    let t0 = std::time::Instant::now();
    while finished.load(Ordering::SeqCst) < nthreads as u64 && t0.elapsed().as_secs() < 20 {
        std::thread::sleep(std::time::Duration::from_millis(2));
    }
    let hung = finished.load(Ordering::SeqCst) < nthreads as u64;
    if !hung {
        for h in handles {
            let _ = h.join();
        }
    }
    let mut evs = EVENTS.lock().unwrap().clone();
    evs.sort();
    // keys (entry point addresses) are renamed to small integers in order of first appearance
    let mut names: Vec<u64> = vec![];
    let events: Vec<Value> = evs
        .iter()
        .map(|(_, tid, l, k)| {
            let k = if l.starts_with("Op") || *k == 0 {
                *k
            } else {
                match names.iter().position(|x| x == k) {
                    Some(i) => i as u64 + 1,
                    None => {
                        names.push(*k);
                        names.len() as u64
                    }
                }
            };
            json!({"t": tid, "l": l, "k": k})
        })
        .collect();
    // a connection to an implementation that is Send but not Sync must not be shareable (calls on it would race)
    let results = *results_ok.lock().unwrap() && !non_sync_connection_is_sync();
    json!({"seed": seed, "threads": nthreads, "events": events, "hung": hung, "results_ok": results,
           "sync_leak": non_sync_connection_is_sync()})
}

//! C09: AbiCall.tla call sequences executed (a) directly on the implementation and (b) through an AbiConnection;
//! both must produce the model's log, results and drop counts.
use savefile_abi::AbiConnection;
use savefile_derive::savefile_abi_exportable;
use serde_json::{json, Value};
use std::cell::RefCell;
use std::collections::{HashMap, VecDeque};
use std::future::Future;
use std::panic::{catch_unwind, AssertUnwindSafe};
use std::pin::Pin;
use std::sync::atomic::{AtomicBool, Ordering};
use std::sync::Arc;
use std::task::{Context, Poll, Wake, Waker};

thread_local! {
    static LOG: RefCell<Vec<(String, i64)>> = RefCell::new(Vec::new());
    static DROPS: RefCell<HashMap<u32, u32>> = RefCell::new(HashMap::new());
}
fn log(k: &str, a: i64) {
    LOG.with(|l| l.borrow_mut().push((k.to_string(), a)));
}
struct DropToken(u32);
impl Drop for DropToken {
    fn drop(&mut self) {
        DROPS.with(|d| *d.borrow_mut().entry(self.0).or_insert(0) += 1);
    }
}

#[savefile_abi_exportable(version = 0)]
pub trait Obj {
    fn id(&self) -> u32;
}
struct TheObj(DropToken);
impl Obj for TheObj {
    fn id(&self) -> u32 {
        log("obj.id", (self.0).0 as i64);
        (self.0).0
    }
}

#[savefile_abi_exportable(version = 0)]
pub trait CallIface {
    fn add(&self, a: u32, b: u32) -> u32;
    fn concat(&self, a: &str, b: String) -> String;
    fn join(&self, a: String, b: String) -> String;
    fn sum(&self, v: &[u32]) -> u32;
    fn blob(&self, v: Vec<u8>) -> Vec<u8>;
    fn check(&self, x: u32) -> Result<u32, String>;
    fn take_obj(&self, o: Box<dyn Obj>) -> u32;
    fn make_obj(&self, id: u32) -> Box<dyn Obj>;
    fn callfn(&self, f: &dyn Fn(u32) -> u32, n: u32) -> u32;
    fn callfnmut(&mut self, f: &mut dyn FnMut(u32), n: u32);
    fn boxed_fn(&self, id: u32) -> Box<dyn Fn(u32) -> u32>;
    fn panic_lit(&self);
    fn panic_fmt(&self, x: u32);
    fn fut(&self, id: u32, pending: u32) -> Pin<Box<dyn Future<Output = u32>>>;
}
/// a future that is Pending `left` times (waking its waker each time) and then yields 100 + the initial count
struct TheFut {
    token: DropToken,
    left: u32,
    total: u32,
}
impl Future for TheFut {
    type Output = u32;
    fn poll(mut self: Pin<&mut Self>, cx: &mut Context<'_>) -> Poll<u32> {
        log("poll", self.left as i64);
        let _ = &self.token;
        if self.left > 0 {
            self.left -= 1;
            cx.waker().wake_by_ref();
            Poll::Pending
        } else {
            Poll::Ready(100 + self.total)
        }
    }
}
struct Flag(AtomicBool);
impl Wake for Flag {
    fn wake(self: Arc<Self>) {
        self.0.store(true, Ordering::SeqCst);
    }
}
/// minimal executor: polls again only after the waker was used; Err if the future is Pending without having woken us
fn drive(mut f: Pin<Box<dyn Future<Output = u32>>>) -> Result<u32, String> {
    let flag = Arc::new(Flag(AtomicBool::new(false)));
    let waker = Waker::from(flag.clone());
    let mut cx = Context::from_waker(&waker);
    for _ in 0..1000 {
        match f.as_mut().poll(&mut cx) {
            Poll::Ready(v) => return Ok(v),
            Poll::Pending => {
                if !flag.0.swap(false, Ordering::SeqCst) {
                    return Err("pending-without-wake".to_string());
                }
            }
        }
    }
    Err("never-ready".to_string())
}
struct Impl(DropToken);
impl CallIface for Impl {
    fn add(&self, a: u32, b: u32) -> u32 {
        log("add", a as i64);
        a + b
    }
    fn concat(&self, a: &str, b: String) -> String {
        log("concat", b.len() as i64);
        format!("{}{}", a, b)
    }
    fn join(&self, a: String, b: String) -> String {
        log("join", a.len() as i64);
        format!("{}{}", a, b)
    }
    fn sum(&self, v: &[u32]) -> u32 {
        log("sum", v.len() as i64);
        v.iter().sum()
    }
    fn blob(&self, v: Vec<u8>) -> Vec<u8> {
        log("blob", v.len() as i64);
        v
    }
    fn check(&self, x: u32) -> Result<u32, String> {
        log("check", x as i64);
        if x == 0 {
            Ok(5)
        } else {
            Err("bad".to_string())
        }
    }
    fn take_obj(&self, o: Box<dyn Obj>) -> u32 {
        // the model logs take_obj with the object's id, which is only known after asking the object
        let id = {
            let before = LOG.with(|l| l.borrow().len());
            let id = o.id();
            LOG.with(|l| l.borrow_mut().insert(before, ("take_obj".to_string(), id as i64)));
            id
        };
        drop(o);
        id
    }
    fn make_obj(&self, id: u32) -> Box<dyn Obj> {
        log("make_obj", id as i64);
        Box::new(TheObj(DropToken(id)))
    }
    fn callfn(&self, f: &dyn Fn(u32) -> u32, n: u32) -> u32 {
        log("callfn", n as i64);
        let mut acc = 0;
        for i in 1..=n {
            acc += f(i);
        }
        acc
    }
    fn callfnmut(&mut self, f: &mut dyn FnMut(u32), n: u32) {
        log("callfnmut", n as i64);
        for i in 1..=n {
            f(i);
        }
    }
    fn boxed_fn(&self, id: u32) -> Box<dyn Fn(u32) -> u32> {
        log("boxed_fn", id as i64);
        let token = DropToken(id);
        Box::new(move |v| {
            log("fn.call", v as i64);
            v + token.0
        })
    }
    fn panic_lit(&self) {
        log("panic_lit", 0);
        panic!("literal panic méssage — ünïcode");
    }
    fn panic_fmt(&self, x: u32) {
        log("panic_fmt", x as i64);
        panic!("formatted panic méssage {} — ünïcode", x);
    }
    fn fut(&self, id: u32, pending: u32) -> Pin<Box<dyn Future<Output = u32>>> {
        log("fut", id as i64);
        Box::pin(TheFut { token: DropToken(id), left: pending, total: pending })
    }
}

enum Held {
    O(Box<dyn Obj>, u32),
    F(Box<dyn Fn(u32) -> u32>, u32),
    #[allow(dead_code)]
    U(Pin<Box<dyn Future<Output = u32>>>, u32),
}

/// runs the call sequence on `iface`; returns (log, rets)
fn run(iface: &mut dyn CallIface, calls: &Value, next_id: &mut u32, held: &mut VecDeque<Held>) -> Vec<(String, i64)> {
    let mut rets = vec![];
    for c in calls.as_array().unwrap() {
        let m = c["m"].as_str().unwrap();
        let x = c["x"].as_i64().unwrap();
        let r = catch_unwind(AssertUnwindSafe(|| -> (String, i64) {
            match m {
                "add" => {
                    let r = iface.add(x as u32, 1);
                    (if r == x as u32 + 1 { "ok" } else { "wrong" }.to_string(), x)
                }
                "concat" => {
                    let b = "c".repeat(x as usize);
                    let r = iface.concat("ab", b.clone());
                    (if r == format!("ab{}", b) { "ok" } else { "wrong" }.to_string(), x)
                }
                "join" => {
                    let a = "j".repeat(x as usize);
                    let r = iface.join(a.clone(), "xy".to_string());
                    (if r == format!("{}xy", a) { "ok" } else { "wrong" }.to_string(), x)
                }
                "sum" => {
                    let v: Vec<u32> = (1..=x as u32).collect();
                    let r = iface.sum(&v);
                    (if r == v.iter().sum::<u32>() { "ok" } else { "wrong" }.to_string(), x)
                }
                "blob" => {
                    let v: Vec<u8> = (0..x as usize).map(|i| (i * 7 % 251) as u8).collect();
                    let r = iface.blob(v.clone());
                    (if r == v { "ok" } else { "wrong" }.to_string(), x)
                }
                "check" => match iface.check(x as u32) {
                    Ok(5) if x == 0 => ("ok".to_string(), x),
                    Err(e) if x == 1 && e == "bad" => ("err".to_string(), x),
                    _ => ("wrong".to_string(), x),
                },
                "take_obj" => {
                    *next_id += 1;
                    let id = *next_id;
                    let r = iface.take_obj(Box::new(TheObj(DropToken(id))));
                    (if r == id { "ok" } else { "wrong" }.to_string(), id as i64)
                }
                "make_obj" => {
                    *next_id += 1;
                    let id = *next_id;
                    let o = iface.make_obj(id);
                    held.push_back(Held::O(o, id));
                    ("obj".to_string(), id as i64)
                }
                "use_obj" => {
                    let h = held.iter().find_map(|h| if let Held::O(o, id) = h { Some((o, *id)) } else { None }).expect("model guard");
                    let r = h.0.id();
                    (if r == h.1 { "ok" } else { "wrong" }.to_string(), h.1 as i64)
                }
                "drop_obj" => {
                    let h = held.pop_front().expect("model guard");
                    let id = match &h {
                        Held::O(_, id) | Held::F(_, id) | Held::U(_, id) => *id,
                    };
                    drop(h);
                    log("drop", id as i64);
                    ("ok".to_string(), 0)
                }
                "callfn" => {
                    let f = |v: u32| {
                        log("callback", v as i64);
                        v + 1
                    };
                    let r = iface.callfn(&f, x as u32);
                    let want: u32 = (1..=x as u32).map(|v| v + 1).sum();
                    (if r == want { "ok" } else { "wrong" }.to_string(), x)
                }
                "callfnmut" => {
                    let mut count = 0u32;
                    let mut f = |v: u32| {
                        log("callback", v as i64);
                        count += 1;
                    };
                    iface.callfnmut(&mut f, x as u32);
                    (if count == x as u32 { "ok" } else { "wrong" }.to_string(), x)
                }
                "boxed_fn" => {
                    *next_id += 1;
                    let id = *next_id;
                    let f = iface.boxed_fn(id);
                    held.push_back(Held::F(f, id));
                    ("fn".to_string(), id as i64)
                }
                "use_boxed_fn" => {
                    let h = held.iter().find_map(|h| if let Held::F(f, id) = h { Some((f, *id)) } else { None }).expect("model guard");
                    let r = (h.0)(x as u32);
                    (if r == x as u32 + h.1 { "ok" } else { "wrong" }.to_string(), x + h.1 as i64)
                }
                "fut" => {
                    *next_id += 1;
                    let f = iface.fut(*next_id, x as u32);
                    match drive(f) {
                        Ok(v) if v == 100 + x as u32 => ("ok".to_string(), x),
                        Ok(_) => ("wrong".to_string(), x),
                        Err(e) => (e, x),
                    }
                }
                "hold_fut" => {
                    *next_id += 1;
                    let id = *next_id;
                    let f = iface.fut(id, x as u32);
                    held.push_back(Held::U(f, id));
                    ("fut".to_string(), id as i64)
                }
                "panic_lit" => {
                    iface.panic_lit();
                    ("returned".to_string(), x)
                }
                "panic_fmt" => {
                    iface.panic_fmt(x as u32);
                    ("returned".to_string(), x)
                }
                other => panic!("harness: unknown call {}", other),
            }
        }));
        match r {
            Ok(v) => rets.push(v),
            Err(p) => {
                let msg = vcommon::panic_msg(p);
                let want = if m == "panic_lit" { "literal panic méssage — ünïcode".to_string() } else { format!("formatted panic méssage {} — ünïcode", x) };
                if (m == "panic_lit" || m == "panic_fmt") && msg.contains(&want) {
                    rets.push(("panic".to_string(), x));
                } else if m == "panic_lit" || m == "panic_fmt" {
                    rets.push((format!("panic-without-message[{}]", msg.chars().take(80).collect::<String>()), x));
                } else {
                    rets.push((format!("unexpected-panic[{}]", msg.chars().take(80).collect::<String>()), x));
                }
            }
        }
    }
    rets
}

pub fn replay(rec: &Value) -> Vec<Value> {
    let mut fails = vec![];
    let want_log: Vec<(String, i64)> = rec["log"].as_array().unwrap().iter().map(|e| (e["k"].as_str().unwrap().to_string(), e["a"].as_i64().unwrap())).collect();
    let want_rets: Vec<(String, i64)> = rec["rets"].as_array().unwrap().iter().map(|e| (e["k"].as_str().unwrap().to_string(), e["a"].as_i64().unwrap())).collect();
    let ndrops = rec["drops"].as_array().unwrap().len() as u32;
    for mode in ["direct", "abi"] {
        LOG.with(|l| l.borrow_mut().clear());
        DROPS.with(|d| d.borrow_mut().clear());
        let mut next_id = 1u32;
        let mut held = VecDeque::new();
        let rets;
        if mode == "direct" {
            let mut b: Box<dyn CallIface> = Box::new(Impl(DropToken(1)));
            rets = run(&mut *b, &rec["calls"], &mut next_id, &mut held);
            while let Some(h) = held.pop_front() {
                drop(h);
            }
            drop(b);
        } else {
            let conn = catch_unwind(AssertUnwindSafe(|| AbiConnection::<dyn CallIface>::from_boxed_trait(Box::new(Impl(DropToken(1))))));
            let mut conn = match conn {
                Ok(Ok(c)) => c,
                other => {
                    fails.push(json!({"check": "c09.connect", "detail": format!("{:?}", other.map(|r| r.map(|_| ()).map_err(|e| e.to_string())).map_err(|_| "panic"))}));
                    continue;
                }
            };
            rets = run(&mut conn, &rec["calls"], &mut next_id, &mut held);
            while let Some(h) = held.pop_front() {
                drop(h);
            }
            drop(conn);
        }
        let log = LOG.with(|l| l.borrow().clone());
        if log != want_log {
            fails.push(json!({"check": format!("c09.{}.observed", mode), "detail": format!("implementation observed {:?}, model {:?}", log, want_log)}));
        }
        if rets != want_rets {
            let c = if rets.iter().any(|r| r.0.starts_with("panic-without-message")) { "panic_message" } else { "results" };
            fails.push(json!({"check": format!("c09.{}.{}", mode, c), "detail": format!("caller received {:?}, model {:?}", rets, want_rets)}));
        }
        let drops = DROPS.with(|d| d.borrow().clone());
        for id in 1..=ndrops {
            let n = drops.get(&id).copied().unwrap_or(0);
            if n != 1 {
                fails.push(json!({"check": format!("c09.{}.drops", mode), "detail": format!("object {} dropped {} times (all: {:?})", id, n, drops)}));
            }
        }
        if drops.len() as u32 != ndrops {
            fails.push(json!({"check": format!("c09.{}.drops", mode), "detail": format!("drop registry {:?}, model expects {} objects", drops, ndrops)}));
        }
    }
    fails
}

// ---- interfaces with many methods / many arguments ---------------------------------------------------------------
macro_rules! many_methods {
    ($($name:ident),*) => {
        #[savefile_abi_exportable(version = 0)]
        pub trait Wide { $( fn $name(&self, x: u32) -> u32; )* }
        struct WideImpl;
        impl Wide for WideImpl { $( fn $name(&self, x: u32) -> u32 { x + (stringify!($name).len() as u32) } )* }
    };
}
many_methods!(m00, m01, m02, m03, m04, m05, m06, m07, m08, m09, m10, m11, m12, m13, m14, m15, m16, m17, m18, m19, m20, m21, m22,
    m23, m24, m25, m26, m27, m28, m29, m30, m31, m32, m33, m34, m35, m36, m37, m38, m39, m40, m41, m42, m43, m44, m45, m46, m47,
    m48, m49, m50, m51, m52, m53, m54, m55, m56, m57, m58, m59, m60, m61, m62, m63, m64, m65);

#[savefile_abi_exportable(version = 0)]
pub trait Narrow {
    fn only(&self, x: u32) -> u32;
}
struct NarrowImpl;
impl Narrow for NarrowImpl {
    fn only(&self, x: u32) -> u32 {
        x * 2
    }
}

// a method with the maximum of 64 arguments; the last one (bit 63 of the by-reference mask) is passed by reference
#[savefile_abi_exportable(version = 0)]
pub trait ManyArgs {
    #[allow(clippy::too_many_arguments)]
    fn many(&self, a0: u8, a1: u8, a2: u8, a3: u8, a4: u8, a5: u8, a6: u8, a7: u8, a8: u8, a9: u8, a10: u8, a11: u8, a12: u8, a13: u8, a14: u8, a15: u8, a16: u8, a17: u8, a18: u8, a19: u8, a20: u8, a21: u8, a22: u8, a23: u8, a24: u8, a25: u8, a26: u8, a27: u8, a28: u8, a29: u8, a30: u8, a31: u8, a32: u8, a33: u8, a34: u8, a35: u8, a36: u8, a37: u8, a38: u8, a39: u8, a40: u8, a41: u8, a42: u8, a43: u8, a44: u8, a45: u8, a46: u8, a47: u8, a48: u8, a49: u8, a50: u8, a51: u8, a52: u8, a53: u8, a54: u8, a55: u8, a56: u8, a57: u8, a58: u8, a59: u8, a60: u8, a61: u8, a62: u8, last: &u32) -> u32;
    fn first_by_ref(&self, first: &u32, tail: u8) -> u32;
}
struct ManyArgsImpl;
impl ManyArgs for ManyArgsImpl {
    fn many(&self, a0: u8, a1: u8, a2: u8, a3: u8, a4: u8, a5: u8, a6: u8, a7: u8, a8: u8, a9: u8, a10: u8, a11: u8, a12: u8, a13: u8, a14: u8, a15: u8, a16: u8, a17: u8, a18: u8, a19: u8, a20: u8, a21: u8, a22: u8, a23: u8, a24: u8, a25: u8, a26: u8, a27: u8, a28: u8, a29: u8, a30: u8, a31: u8, a32: u8, a33: u8, a34: u8, a35: u8, a36: u8, a37: u8, a38: u8, a39: u8, a40: u8, a41: u8, a42: u8, a43: u8, a44: u8, a45: u8, a46: u8, a47: u8, a48: u8, a49: u8, a50: u8, a51: u8, a52: u8, a53: u8, a54: u8, a55: u8, a56: u8, a57: u8, a58: u8, a59: u8, a60: u8, a61: u8, a62: u8, last: &u32) -> u32 {
        a0 as u32 + a1 as u32 + a2 as u32 + a3 as u32 + a4 as u32 + a5 as u32 + a6 as u32 + a7 as u32 + a8 as u32 + a9 as u32 + a10 as u32 + a11 as u32 + a12 as u32 + a13 as u32 + a14 as u32 + a15 as u32 + a16 as u32 + a17 as u32 + a18 as u32 + a19 as u32 + a20 as u32 + a21 as u32 + a22 as u32 + a23 as u32 + a24 as u32 + a25 as u32 + a26 as u32 + a27 as u32 + a28 as u32 + a29 as u32 + a30 as u32 + a31 as u32 + a32 as u32 + a33 as u32 + a34 as u32 + a35 as u32 + a36 as u32 + a37 as u32 + a38 as u32 + a39 as u32 + a40 as u32 + a41 as u32 + a42 as u32 + a43 as u32 + a44 as u32 + a45 as u32 + a46 as u32 + a47 as u32 + a48 as u32 + a49 as u32 + a50 as u32 + a51 as u32 + a52 as u32 + a53 as u32 + a54 as u32 + a55 as u32 + a56 as u32 + a57 as u32 + a58 as u32 + a59 as u32 + a60 as u32 + a61 as u32 + a62 as u32 + *last
    }
    fn first_by_ref(&self, first: &u32, tail: u8) -> u32 {
        *first * 2 + tail as u32
    }
}

// an interface at version 1 whose closures (by reference, returned boxed) and nested trait object carry a type with a field
// added in version 1: same version on both sides, so every hop must be the identity
#[derive(savefile_derive::Savefile, Clone, Debug, PartialEq)]
pub struct Labelled {
    pub id: u32,
    #[savefile_versions = "1.."]
    pub label: String,
    #[savefile_versions = "1.."]
    pub weight: u16,
}
#[savefile_abi_exportable(version = 1)]
pub trait LabelSink {
    fn put(&mut self, l: Labelled) -> Labelled;
}
#[savefile_abi_exportable(version = 1)]
pub trait V1Iface {
    fn via_fn(&self, f: &dyn Fn(Labelled) -> Labelled, x: Labelled) -> Labelled;
    fn via_fnmut(&self, f: &mut dyn FnMut(Labelled), x: Labelled);
    fn via_sink(&self, s: &mut dyn LabelSink, x: Labelled) -> Labelled;
    fn make_fn(&self) -> Box<dyn Fn(Labelled) -> Labelled>;
}
struct V1Impl;
impl V1Iface for V1Impl {
    fn via_fn(&self, f: &dyn Fn(Labelled) -> Labelled, x: Labelled) -> Labelled {
        f(x)
    }
    fn via_fnmut(&self, f: &mut dyn FnMut(Labelled), x: Labelled) {
        f(x)
    }
    fn via_sink(&self, s: &mut dyn LabelSink, x: Labelled) -> Labelled {
        s.put(x)
    }
    fn make_fn(&self) -> Box<dyn Fn(Labelled) -> Labelled> {
        Box::new(|mut l| {
            l.label.push('!');
            l
        })
    }
}
fn v1_payloads(fails: &mut Vec<Value>) {
    let x = Labelled { id: 7, label: "héllo".to_string(), weight: 513 };
    struct Keep(Vec<Labelled>);
    impl LabelSink for Keep {
        fn put(&mut self, l: Labelled) -> Labelled {
            self.0.push(l.clone());
            l
        }
    }
    let run = |iface: &dyn V1Iface| -> Vec<Labelled> {
        let mut seen = vec![];
        let f = |l: Labelled| l;
        seen.push(iface.via_fn(&f, x.clone()));
        let mut got = None;
        let mut g = |l: Labelled| got = Some(l);
        iface.via_fnmut(&mut g, x.clone());
        seen.push(got.expect("closure called"));
        let mut k = Keep(vec![]);
        seen.push(iface.via_sink(&mut k, x.clone()));
        seen.extend(k.0);
        let b = iface.make_fn();
        seen.push(b(x.clone()));
        seen
    };
    let direct = run(&V1Impl);
    match catch_unwind(AssertUnwindSafe(|| AbiConnection::<dyn V1Iface>::from_boxed_trait(Box::new(V1Impl)).map(|c| run(&c)))) {
        Ok(Ok(through)) => {
            if through != direct {
                fails.push(json!({"check": "c09.payload_through_closure_or_object", "detail": format!("through the ABI {:?}, directly {:?}", through, direct)}));
            }
        }
        Ok(Err(e)) => fails.push(json!({"check": "c09.v1.connect", "detail": format!("{}", e)})),
        Err(p) => fails.push(json!({"check": "c09.v1.panic", "detail": vcommon::panic_msg(p)})),
    }
}

// the remaining argument kinds of the derive: a boxed trait object inside a Result (both arms), futures and closures with
// Send / Sync bounds, a slice of strings' owners, Option and tuple arguments
#[savefile_abi_exportable(version = 0)]
pub trait KindsIface {
    fn open(&self, id: u32) -> Result<Box<dyn Obj>, String>;
    fn send_fut(&self, x: u32) -> Pin<Box<dyn Future<Output = String> + Send>>;
    fn sync_fn(&self, f: &dyn Fn(u32) -> u32, x: u32) -> u32;
    fn boxed_fnmut(&self, start: u32) -> Box<dyn FnMut(u32) -> u32>;
    fn strings(&self, v: &[String]) -> String;
    fn opt_tuple(&self, o: Option<(u8, String)>, t: (u16, u16)) -> Option<String>;
}
struct KindsImpl;
impl KindsIface for KindsImpl {
    fn open(&self, id: u32) -> Result<Box<dyn Obj>, String> {
        if id % 2 == 0 {
            Ok(Box::new(TheObj(DropToken(id))))
        } else {
            Err(format!("no object {}", id))
        }
    }
    fn send_fut(&self, x: u32) -> Pin<Box<dyn Future<Output = String> + Send>> {
        Box::pin(async move { format!("fut-{}", x) })
    }
    fn sync_fn(&self, f: &dyn Fn(u32) -> u32, x: u32) -> u32 {
        f(x) + f(x + 1)
    }
    fn boxed_fnmut(&self, start: u32) -> Box<dyn FnMut(u32) -> u32> {
        let mut acc = start;
        Box::new(move |d| {
            acc += d;
            acc
        })
    }
    fn strings(&self, v: &[String]) -> String {
        v.join("|")
    }
    fn opt_tuple(&self, o: Option<(u8, String)>, t: (u16, u16)) -> Option<String> {
        o.map(|(a, s)| format!("{}{}{}{}", a, s, t.0, t.1))
    }
}
fn drive_str(mut f: Pin<Box<dyn Future<Output = String> + Send>>) -> String {
    let flag = Arc::new(Flag(AtomicBool::new(false)));
    let waker = Waker::from(flag);
    let mut cx = Context::from_waker(&waker);
    for _ in 0..100 {
        if let Poll::Ready(v) = f.as_mut().poll(&mut cx) {
            return v;
        }
    }
    "never-ready".to_string()
}
fn other_kinds(fails: &mut Vec<Value>) {
    let run = |iface: &dyn KindsIface| -> (Vec<String>, Vec<(u32, u32)>) {
        DROPS.with(|d| d.borrow_mut().clear());
        let mut out = vec![];
        match iface.open(40) {
            Ok(o) => out.push(format!("ok {}", o.id())),
            Err(e) => out.push(format!("err {}", e)),
        }
        match iface.open(41) {
            Ok(o) => out.push(format!("ok {}", o.id())),
            Err(e) => out.push(format!("err {}", e)),
        }
        out.push(drive_str(iface.send_fut(9)));
        let f = |v: u32| v * 3;
        out.push(format!("{}", iface.sync_fn(&f, 5)));
        let mut g = iface.boxed_fnmut(10);
        out.push(format!("{} {}", g(1), g(2)));
        drop(g);
        out.push(iface.strings(&["a".to_string(), "".to_string(), "héé".to_string()]));
        out.push(format!("{:?}", iface.opt_tuple(Some((7, "x".to_string())), (1, 65535))));
        out.push(format!("{:?}", iface.opt_tuple(None, (0, 0))));
        let mut drops: Vec<(u32, u32)> = DROPS.with(|d| d.borrow().iter().map(|(k, v)| (*k, *v)).collect());
        drops.sort();
        (out, drops)
    };
    let direct = run(&KindsImpl);
    match catch_unwind(AssertUnwindSafe(|| AbiConnection::<dyn KindsIface>::from_boxed_trait(Box::new(KindsImpl)).map(|c| run(&c)))) {
        Ok(Ok(through)) => {
            if through != direct {
                fails.push(json!({"check": "c09.kinds", "detail": format!("through the ABI {:?}, directly {:?}", through, direct)}));
            }
            if direct.1 != vec![(40, 1)] {
                fails.push(json!({"check": "tool.kinds", "detail": format!("direct run drop registry {:?}", direct.1)}));
            }
        }
        Ok(Err(e)) => fails.push(json!({"check": "c09.kinds.connect", "detail": format!("{}", e)})),
        Err(p) => fails.push(json!({"check": "c09.kinds.panic", "detail": vcommon::panic_msg(p)})),
    }
}

pub fn wide() -> Vec<Value> {
    let mut fails = vec![];
    v1_payloads(&mut fails);
    other_kinds(&mut fails);
    let r = catch_unwind(AssertUnwindSafe(|| AbiConnection::<dyn ManyArgs>::from_boxed_trait(Box::new(ManyArgsImpl))));
    match r {
        Ok(Ok(c)) => {
            let got = catch_unwind(AssertUnwindSafe(|| (c.many(0, 3, 6, 2, 5, 1, 4, 0, 3, 6, 2, 5, 1, 4, 0, 3, 6, 2, 5, 1, 4, 0, 3, 6, 2, 5, 1, 4, 0, 3, 6, 2, 5, 1, 4, 0, 3, 6, 2, 5, 1, 4, 0, 3, 6, 2, 5, 1, 4, 0, 3, 6, 2, 5, 1, 4, 0, 3, 6, 2, 5, 1, 4, &1000), c.first_by_ref(&21, 3))));
            match got {
                Ok((a, b)) => {
                    if a != 189 + 1000 || b != 45 {
                        fails.push(json!({"check": "c09.manyargs.results", "detail": format!("64-argument method returned {} (want {}), first_by_ref {} (want 45)", a, 189 + 1000, b)}));
                    }
                }
                Err(p) => fails.push(json!({"check": "c09.manyargs.panic", "detail": vcommon::panic_msg(p)})),
            }
        }
        Ok(Err(e)) => fails.push(json!({"check": "c09.manyargs.connect", "detail": format!("64-argument method: cannot connect: {}", e)})),
        Err(p) => fails.push(json!({"check": "c09.manyargs.connect", "detail": format!("64-argument method: connect panics: {}", vcommon::panic_msg(p))})),
    }
    let r = catch_unwind(AssertUnwindSafe(|| AbiConnection::<dyn Wide>::from_boxed_trait(Box::new(WideImpl))));
    match r {
        Ok(Ok(c)) => {
            if c.m00(1) != 4 || c.m65(2) != 5 {
                fails.push(json!({"check": "c09.wide.results", "detail": "66-method interface: wrong result"}));
            }
        }
        Ok(Err(e)) => fails.push(json!({"check": "c09.wide.connect", "detail": format!("66-method interface cannot connect: {}", e)})),
        Err(p) => fails.push(json!({"check": "c09.wide.connect", "detail": format!("66-method interface: connect panics: {}", vcommon::panic_msg(p))})),
    }
    // and whatever happened there must not affect other interfaces
    let r = catch_unwind(AssertUnwindSafe(|| AbiConnection::<dyn Narrow>::from_boxed_trait(Box::new(NarrowImpl)).map(|c| c.only(4))));
    match r {
        Ok(Ok(8)) => {}
        other => fails.push(json!({"check": "c09.wide.poisoned", "detail": format!("a later connection of another interface fails: {:?}",
            other.map(|r| r.map_err(|e| e.to_string())).map_err(|p| vcommon::panic_msg(p)))})),
    }
    fails
}

// ---- helpers for the cache scenario (cache.rs) -------------------------------------------------------------------
pub type CallIfaceDyn = dyn CallIface;
pub type NarrowDyn = dyn Narrow;
pub fn self_test_iface() -> Result<AbiConnection<dyn CallIface>, savefile::SavefileError> {
    AbiConnection::<dyn CallIface>::from_boxed_trait(Box::new(Impl(DropToken(0))))
}
pub fn narrow_impl() -> Box<dyn Narrow> {
    Box::new(NarrowImpl)
}
pub fn narrow_only(c: &AbiConnection<dyn Narrow>, x: u32) -> u32 {
    c.only(x)
}
/// creates a connection of interface Obj directly and calls it
pub fn obj_connection(id: u32) -> Result<u32, savefile::SavefileError> {
    let c = AbiConnection::<dyn Obj>::from_boxed_trait(Box::new(TheObj(DropToken(id))))?;
    Ok(c.id())
}
pub fn call_add(c: &AbiConnection<dyn CallIface>, x: u32) -> u32 {
    c.add(x, 1)
}
pub fn call_take_obj(c: &AbiConnection<dyn CallIface>, id: u32) -> u32 {
    c.take_obj(Box::new(TheObj(DropToken(id))))
}
pub fn call_make_and_use_obj(c: &AbiConnection<dyn CallIface>, id: u32) -> u32 {
    let o = c.make_obj(id);
    o.id()
}

//! Replay of AbiVer.tla behaviours (C10, C11): a version-i caller connected to a version-j implementation.
//!
//!   abi replay <records.ndjson> <out.ndjson>
use serde_json::{json, Value};
use std::io::{BufRead, BufWriter, Write};
use std::panic::{catch_unwind, AssertUnwindSafe};
use vcommon::*;

mod cache;
mod xcompile;
mod calls;

fn mvs(v: &Value) -> Vec<MV> {
    v.as_array().unwrap().iter().map(|x| serde_json::from_value(x.clone()).expect("model value")).collect()
}

fn main() {
    let args: Vec<String> = std::env::args().collect();
    if args.len() >= 6 && args[1] == "cache" {
        // abi cache <seed> <nthreads> <plugin.so> <out>   (appends one observation)
        std::panic::set_hook(Box::new(|_| {}));
        let o = cache::run(args[2].parse().unwrap(), args[3].parse().unwrap(), &args[4]);
        let mut f = std::fs::OpenOptions::new().create(true).append(true).open(&args[5]).expect("out");
        writeln!(f, "{}", o).unwrap();
        // threads may be stuck if the run hung: leave without joining them
        std::process::exit(0);
    }
    if args.len() >= 5 && args[1] == "xcompile" {
        // abi xcompile <plugin.so> <label> <out>   (C11: a separately compiled implementation)
        std::panic::set_hook(Box::new(|_| {}));
        let mut f = std::fs::File::create(&args[4]).expect("out");
        for o in xcompile::run(&args[2], &args[3]) {
            writeln!(f, "{}", o).unwrap();
        }
        std::process::exit(0);
    }
    if args.len() >= 4 && args[1] == "sched" {
        // abi sched <plugin.so> <schedule.json>   (one schedule per process: the caches are process-global)
        std::panic::set_hook(Box::new(|_| {}));
        let rec: Value = serde_json::from_str(&std::fs::read_to_string(&args[3]).expect("schedule")).expect("json");
        println!("{}", cache::run_schedule(&rec, &args[2]));
        std::process::exit(0);
    }
    if args.len() >= 4 && args[1] == "calls" {
        std::panic::set_hook(Box::new(|_| {}));
        let input = std::fs::File::open(&args[2]).expect("records");
        let mut out = BufWriter::new(std::fs::File::create(&args[3]).expect("out"));
        for (idx, line) in std::io::BufReader::new(input).lines().enumerate() {
            let line = line.unwrap();
            if line.trim().is_empty() {
                continue;
            }
            let rec: Value = serde_json::from_str(&line).expect("json");
            writeln!(out, "{}", json!({"kind": "result", "i": idx, "fails": calls::replay(&rec)})).unwrap();
            out.flush().unwrap(); // (a run under Miri may stop at any record)
        }
        writeln!(out, "{}", json!({"kind": "wide", "i": -1, "fails": calls::wide()})).unwrap();
        return;
    }
    if args.len() >= 4 && args[1] == "ledger" {
        // C15: Ledger.tla histories on a real directory
        std::panic::set_hook(Box::new(|_| {}));
        let input = std::fs::File::open(&args[2]).expect("records");
        let mut out = BufWriter::new(std::fs::File::create(&args[3]).expect("out"));
        let base = std::env::temp_dir().join(format!("verif_c15_{}", std::process::id()));
        for (idx, line) in std::io::BufReader::new(input).lines().enumerate() {
            let line = line.unwrap();
            if !line.contains("\"kind\":\"ledger\"") {
                continue;
            }
            let rec: Value = serde_json::from_str(&line).expect("json");
            let dir = base.join(format!("h{}", idx));
            let _ = std::fs::remove_dir_all(&dir);
            std::fs::create_dir_all(&dir).unwrap();
            let mut fails = vec![];
            let runs = rec["runs"].as_array().unwrap();
            for (n, rev) in runs.iter().enumerate() {
                let rev = rev.as_str().unwrap();
                let want = rec["results"][n].as_str().unwrap();
                let r = catch_unwind(AssertUnwindSafe(|| genabi::ledger_verify(rev, dir.to_str().unwrap())));
                let got = match r {
                    Ok(Ok(())) => "ok".to_string(),
                    Ok(Err(e)) => format!("err: {}", e),
                    Err(p) => format!("panic: {}", panic_msg(p)),
                };
                let class = if got.starts_with("err") { "err" } else if got.starts_with("panic") { "panic" } else { got.as_str() };
                if class != want {
                    let check = if want == "ok" { if n > 0 && runs[n - 1] == runs[n] { "c15.second_run" } else { "c15.compatible_rejected" } } else { "c15.breaking_accepted" };
                    fails.push(json!({"check": check, "detail": format!("run #{} over revision {}: real {} spec {}", n, rev, got.chars().take(200).collect::<String>(), want)}));
                    break;
                }
            }
            if fails.is_empty() {
                let mut files: Vec<String> = std::fs::read_dir(&dir).unwrap().map(|e| e.unwrap().file_name().to_string_lossy().to_string()).collect();
                files.sort();
                let mut want: Vec<String> = rec["files"].as_array().unwrap().iter().map(|v| format!("savefile_Led_{}.schema", v)).collect();
                want.sort();
                if files != want {
                    fails.push(json!({"check": "c15.files", "detail": format!("directory holds {:?}, spec {:?}", files, want)}));
                }
            }
            writeln!(out, "{}", json!({"kind": "result", "i": idx, "fails": fails})).unwrap();
        }
        let _ = std::fs::remove_dir_all(&base);
        return;
    }
    if args.len() < 4 || args[1] != "replay" {
        eprintln!("usage: abi replay <records> <out>");
        std::process::exit(2);
    }
    std::panic::set_hook(Box::new(|_| {}));
    let input = std::fs::File::open(&args[2]).expect("records");
    let mut out = BufWriter::new(std::fs::File::create(&args[3]).expect("out"));
    let mut families: std::collections::HashMap<u64, Value> = Default::default();
    let lines: Vec<String> = std::io::BufReader::new(input).lines().map(|l| l.unwrap()).collect();
    for l in &lines {
        if l.contains("\"kind\":\"family\"") {
            let r: Value = serde_json::from_str(l).unwrap();
            families.insert(r["fam"].as_u64().unwrap(), r);
        }
    }
    let mut masks_done = std::collections::HashSet::new();
    for (idx, line) in lines.iter().enumerate() {
        if line.trim().is_empty() || !line.contains("\"kind\":\"call\"") {
            continue;
        }
        let rec: Value = serde_json::from_str(line).expect("json");
        let (fam, i, j) = (rec["fam"].as_u64().unwrap() as u32, rec["i"].as_u64().unwrap() as u32, rec["j"].as_u64().unwrap() as u32);
        let mut fails = vec![];
        let mut fail = |c: &str, d: String| fails.push(json!({"check": c, "detail": d}));
        let conn = catch_unwind(AssertUnwindSafe(|| genabi::connect(fam, i, j)));
        let want_conn = rec["connected"].as_str().unwrap();
        match conn {
            Err(p) => fail("c10.connect.panic", panic_msg(p)),
            Ok(Err(e)) => {
                if want_conn != "err" {
                    fail("c10.connect.rejected", format!("connection refused although the interfaces are compatible: {}", e));
                } else if err_class(&e) != "IncompatibleSchema" && err_class(&e) != "GeneralError" {
                    fail("c10.connect.errorclass", format!("{:?}", e));
                }
            }
            Ok(Ok(c)) => {
                if want_conn != "ok" {
                    fail("c10.connect.accepted", "connection created although a signature changed incompatibly".to_string());
                } else {
                    // ---- by-reference mask (C11): recorded once per (fam, i, j), judged by TLC (AbiTrace)
                    if masks_done.insert((fam, i, j)) {
                        let vi = &families[&(fam as u64)]["versions"][i as usize];
                        let vj = &families[&(fam as u64)]["versions"][j as usize];
                        for s in vi.as_array().unwrap() {
                            let name = s["name"].as_str().unwrap();
                            if !vj.as_array().unwrap().iter().any(|x| x["name"] == s["name"]) || s["kind"] != "plain" {
                                continue;
                            }
                            for k in 0..s["args"].as_array().unwrap().len() {
                                let passable = catch_unwind(AssertUnwindSafe(|| c.passable(name, k))).unwrap_or(false);
                                let sa = schema_node(&serde_json::to_value(genabi::arg_schema(fam, i, name, k)).unwrap());
                                let sb = schema_node(&serde_json::to_value(genabi::arg_schema(fam, j, name, k)).unwrap());
                                writeln!(out, "{}", json!({"kind": "mask", "fam": fam, "i": i, "j": j, "method": name, "arg": k,
                                    "passable": passable, "sa": sa, "sb": sb})).unwrap();
                            }
                        }
                    }
                    let method = rec["method"].as_str().unwrap();
                    if !method.is_empty() {
                        let a = mvs(&rec["args"]);
                        let ret: MV = serde_json::from_value(rec["ret"].clone()).unwrap();
                        abi::set_ret(ret);
                        let _ = abi::take_log();
                        let r = catch_unwind(AssertUnwindSafe(|| c.call(method, &a)));
                        let log = abi::take_log();
                        match (rec["outcome"].as_str().unwrap(), r) {
                            ("returned", Ok(got)) => {
                                let want: MV = serde_json::from_value(rec["got"].clone()).unwrap();
                                if got != want {
                                    fail("c10.ret", format!("caller received {:?}, expected {:?}", got, want));
                                }
                                let seen = mvs(&rec["seen"]);
                                let nested = rec["mkind"] == "sink" || rec["mkind"] == "fn";
                                if log.len() != (if nested { 2 } else { 1 }) || log[0].0 != method {
                                    fail("c10.dispatch", format!("implementation log {:?}", log.iter().map(|x| x.0.clone()).collect::<Vec<_>>()));
                                } else if log[0].1 != seen {
                                    fail("c10.args", format!("implementation observed {:?}, expected {:?}", log[0].1, seen));
                                } else if nested {
                                    // what the caller's nested object / closure was handed by the implementation
                                    let nseen: MV = serde_json::from_value(rec["nseen"].clone()).unwrap();
                                    if log[1].0 != format!("cb:{}", method) || log[1].1 != vec![nseen.clone()] {
                                        fail("c10.nested", format!("the caller's nested object / closure observed {:?}, expected {:?}", log[1], nseen));
                                    }
                                }
                            }
                            ("returned", Err(p)) => fail("c10.call.panic", panic_msg(p)),
                            ("panic-missing-method", Ok(_)) => fail("c10.missing.returned", "call of a method the implementation lacks returned".into()),
                            ("panic-missing-method", Err(p)) => {
                                let m = panic_msg(p);
                                if !m.contains(method) {
                                    fail("c10.missing.message", format!("panic message does not name the method: {}", m));
                                }
                                if !log.is_empty() {
                                    fail("c10.missing.dispatched", "the implementation was entered".into());
                                }
                            }
                            (o, _) => fail("tool.outcome", o.to_string()),
                        }
                    }
                }
            }
        }
        writeln!(out, "{}", json!({"kind": "result", "i": idx, "fails": fails})).unwrap();
    }
}

//! C11: a caller built by the stable compiler against an implementation that was compiled SEPARATELY (cdylib), possibly
//! by another compiler with -Zrandomize-layout.  For every by-reference argument: the real decision
//! (get_arg_passable_by_ref), the caller's real native schema and the implementation's layout facts are recorded for
//! AbiTrace.tla (decision => identical layout), and the values the implementation observes are compared.
use plugin_iface::*;
use savefile::prelude::*;
use savefile_abi::AbiConnection;
use serde_json::{json, Value};
use std::panic::{catch_unwind, AssertUnwindSafe};

fn node<T: WithSchema>() -> Value {
    let s = savefile::get_schema::<T>(0);
    vcommon::schema_node(&serde_json::to_value(&s).expect("schema json"))
}
/// the same schema with the implementation's size / align / field offsets
fn with_layout(mut n: Value, facts: &[u64]) -> Value {
    n["sz"] = json!(facts[0]);
    n["al"] = json!(facts[1]);
    for (i, f) in n["ts"].as_array_mut().unwrap().iter_mut().enumerate() {
        f["off"] = json!(facts[2 + i]);
    }
    n
}

pub fn run(plugin: &str, label: &str) -> Vec<Value> {
    let mut out = vec![];
    let conn = match catch_unwind(AssertUnwindSafe(|| AbiConnection::<dyn LayoutIface>::load_shared_library(plugin))) {
        Ok(Ok(c)) => c,
        Ok(Err(e)) => return vec![json!({"kind": "xfail", "label": label, "check": "c11.xcompile.connect", "detail": format!("{}", e)})],
        Err(p) => return vec![json!({"kind": "xfail", "label": label, "check": "c11.xcompile.connect", "detail": format!("panic: {}", vcommon::panic_msg(p))})],
    };
    let mut fail = |c: &str, d: String| out.push(json!({"kind": "xfail", "label": label, "check": c, "detail": d}));
    let theirs = match catch_unwind(AssertUnwindSafe(|| conn.layouts())) {
        Ok(v) if v.len() == 12 => v,
        other => {
            fail("c11.xcompile.layouts", format!("{:?}", other.map_err(|p| vcommon::panic_msg(p))));
            return out;
        }
    };
    let ours = layout_facts();
    let recs = [
        RustRec { a: 1, b: 2, c: 3, d: 4, e: 5 },
        RustRec { a: 255, b: 0xDEADBEEF, c: 0xABCD, d: 0x0123_4567_89AB_CDEF, e: 0x7F },
        RustRec::default(),
    ];
    let mut check = |name: &str, got: Result<u64, String>, want: u64| match got {
        Ok(g) if g == want => {}
        Ok(g) => fail("c11.xcompile.value", format!("{}: the implementation observed a value with digest {}, the caller passed one with digest {}", name, g, want)),
        Err(p) => fail("c11.xcompile.panic", format!("{}: {}", name, p)),
    };
    let guard = |f: &dyn Fn() -> u64| catch_unwind(AssertUnwindSafe(f)).map_err(|p| vcommon::panic_msg(p));
    for r in &recs {
        check("rust_rec", guard(&|| conn.rust_rec(r)), d_rust(r));
        check("echo", guard(&|| d_rust(&conn.echo(r))), d_rust(r));
        let c = CRec { a: r.a, b: r.b, c: r.c };
        check("c_rec", guard(&|| conn.c_rec(&c)), d_c(&c));
        let p = CPacked { a: r.b, b: r.c, c: r.a as u16 };
        check("c_packed", guard(&|| conn.c_packed(&p)), d_packed(&p));
        let t = (r.a, r.b, r.c);
        check("tuple", guard(&|| conn.tuple(&t)), d_tuple(&t));
        for e in [REnum::A(r.a), REnum::B(r.b, r.c), REnum::C] {
            check("renum", guard(&|| conn.renum(&e)), d_enum(&e));
        }
    }
    let v: Vec<RustRec> = recs.to_vec();
    let want: u64 = v.iter().enumerate().map(|(i, r)| (i as u64 + 1) * d_rust(r)).sum();
    check("vec_rust", guard(&|| conn.vec_rust(&v)), want);
    check("slice_rust", guard(&|| conn.slice_rust(&v)), want);
    let s = "héllo wörld".to_string();
    check("string", guard(&|| conn.string(&s)), s.bytes().enumerate().map(|(i, b)| (i as u64 + 1) * b as u64).sum());
    drop(check);
    drop(fail);
    // ---- decisions: passable => identical layout (validated by TLC, spec/AbiTrace.tla)
    let rust_a = node::<RustRec>();
    let rust_b = with_layout(rust_a.clone(), &theirs[0..7]);
    let tup_a = node::<(u8, u32, u16)>();
    let tup_b = with_layout(tup_a.clone(), &theirs[7..12]);
    let wrap = |k: &str, inner: &Value, outer: &Value| {
        let mut o = outer.clone();
        o["ts"] = json!([inner.clone()]);
        let _ = k;
        o
    };
    let vec_a = node::<Vec<RustRec>>();
    let vec_b = wrap("vector", &rust_b, &vec_a);
    let mut mask = |method: &str, sa: Value, sb: Value| {
        let passable = catch_unwind(AssertUnwindSafe(|| conn.get_arg_passable_by_ref(method, 0))).unwrap_or(false);
        out.push(json!({"kind": "mask", "label": label, "fam": 0, "i": 0, "j": 0, "method": method, "arg": 0, "passable": passable, "sa": sa, "sb": sb,
                        "layout_differs": ours != theirs}));
    };
    mask("rust_rec", rust_a.clone(), rust_b.clone());
    mask("echo", rust_a.clone(), rust_b.clone());
    mask("tuple", tup_a, tup_b);
    mask("vec_rust", vec_a, vec_b);
    // repr(C) / explicit-repr types: the language fixes their layout, the implementation's equals the caller's
    mask("c_rec", node::<CRec>(), node::<CRec>());
    mask("c_packed", node::<CPacked>(), node::<CPacked>());
    mask("renum", node::<REnum>(), node::<REnum>());
    out
}

//! Support for the generated ABI replay crate: what the logging implementations record and return.
use crate::model::{Model, MV};
use std::cell::RefCell;

thread_local! {
    static LOG: RefCell<Vec<(String, Vec<MV>)>> = RefCell::new(Vec::new());
    static RET: RefCell<Option<MV>> = RefCell::new(None);
}
/// called by a generated implementation on entry: the argument values it observes
pub fn log(method: &str, args: Vec<MV>) {
    LOG.with(|l| l.borrow_mut().push((method.to_string(), args)));
}
pub fn take_log() -> Vec<(String, Vec<MV>)> {
    LOG.with(|l| std::mem::take(&mut *l.borrow_mut()))
}
pub fn set_ret(v: MV) {
    RET.with(|r| *r.borrow_mut() = Some(v));
}
/// the value a generated implementation returns (set by the harness before the call, in the implementation's types)
pub fn next_ret<T: Model>() -> T {
    RET.with(|r| T::from_model(r.borrow().as_ref().expect("harness: return value not set")))
}
/// a connection of a version-i caller, type-erased
pub trait Caller {
    fn call(&self, method: &str, args: &[MV]) -> MV;
    fn passable(&self, method: &str, arg: usize) -> bool;
}

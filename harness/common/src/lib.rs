pub mod abi;
pub mod model;
pub mod ops;
pub mod tap;

pub use model::{Model, MV};
pub use ops::*;
pub use tap::*;

/// canonical JSON (sorted keys, no whitespace) — must agree with gen/ (python json.dumps(sort_keys, separators))
pub fn canon(v: &serde_json::Value) -> String {
    fn go(v: &serde_json::Value, out: &mut String) {
        match v {
            serde_json::Value::Object(m) => {
                let mut keys: Vec<&String> = m.keys().collect();
                keys.sort();
                out.push('{');
                for (i, k) in keys.iter().enumerate() {
                    if i > 0 {
                        out.push(',');
                    }
                    out.push_str(&serde_json::to_string(k).unwrap());
                    out.push(':');
                    go(&m[*k], out);
                }
                out.push('}');
            }
            serde_json::Value::Array(a) => {
                out.push('[');
                for (i, x) in a.iter().enumerate() {
                    if i > 0 {
                        out.push(',');
                    }
                    go(x, out);
                }
                out.push(']');
            }
            other => out.push_str(&serde_json::to_string(other).unwrap()),
        }
    }
    let mut s = String::new();
    go(v, &mut s);
    s
}

/// Wire!PrimWidth
pub fn prim_width(name: &str) -> usize {
    match name {
        "u8" | "i8" | "bool" => 1,
        "u16" | "i16" => 2,
        "u32" | "i32" | "f32" | "char" => 4,
        "u64" | "i64" | "f64" | "usize" | "isize" => 8,
        "u128" | "i128" => 16,
        _ => 0,
    }
}
/// Wire!DefaultOf (only the shapes the generator uses for defaults)
pub fn default_mv(t: &serde_json::Value) -> MV {
    let k = t["k"].as_str().unwrap();
    let ts = t["ts"].as_array().unwrap();
    match k {
        "p" => MV::b(vec![0; prim_width(t["s"].as_str().unwrap())]),
        "str" => MV::b(vec![]),
        "vec" | "map" => MV::l(vec![]),
        "arr" => MV::l((0..t["n"].as_u64().unwrap()).map(|_| default_mv(&ts[0])).collect()),
        "opt" => MV::none(),
        "box" => default_mv(&ts[0]),
        "tup" => MV::l(ts.iter().map(default_mv).collect()),
        "struct" => MV::l(
            ts.iter()
                .enumerate()
                .map(|(i, x)| {
                    let a = &t["fa"][i];
                    if a["rm"] != "no" || a["ig"] == true {
                        MV::unit()
                    } else {
                        default_mv(x)
                    }
                })
                .collect(),
        ),
        "enum" => MV::ev(0, ts[0]["ts"].as_array().unwrap().iter().map(default_mv).collect()),
        other => panic!("default_mv: unsupported kind {}", other),
    }
}
/// Wire!WitnessOf
pub fn witness_mv(t: &serde_json::Value) -> MV {
    let k = t["k"].as_str().unwrap();
    let ts = t["ts"].as_array().unwrap();
    match k {
        "p" => {
            let s = t["s"].as_str().unwrap();
            match s {
                "bool" => MV::b(vec![1]),
                "char" => MV::b(vec![90, 0, 0, 0]),
                "f32" => MV::b(vec![0, 0, 128, 63]),
                "f64" => MV::b(vec![0, 0, 0, 0, 0, 0, 240, 63]),
                _ => {
                    let mut b = vec![0u8; prim_width(s)];
                    if !b.is_empty() {
                        b[0] = 7;
                    }
                    MV::b(b)
                }
            }
        }
        "str" => MV::b(vec![100, 102]),
        "vec" => MV::l(vec![witness_mv(&ts[0])]),
        "opt" => MV::some(witness_mv(&ts[0])),
        "box" => witness_mv(&ts[0]),
        "arr" => MV::l((0..t["n"].as_u64().unwrap()).map(|_| witness_mv(&ts[0])).collect()),
        "tup" => MV::l(ts.iter().map(witness_mv).collect()),
        _ => default_mv(t),
    }
}
pub fn witness<T: Model>(desc_json: &str) -> T {
    let t: serde_json::Value = serde_json::from_str(desc_json).expect("descriptor json");
    T::from_model(&witness_mv(&t))
}
/// Wire!Conv : the conversion function used by generated `savefile_versions_as` fields
pub fn conv_mv(old: &MV, new_desc: &serde_json::Value) -> MV {
    let k = new_desc["k"].as_str().unwrap();
    match k {
        "p" => {
            let w = prim_width(new_desc["s"].as_str().unwrap());
            let mut b = old.bs.clone();
            b.resize(w, 0);
            MV::b(b)
        }
        "opt" => MV::some(conv_mv(old, &new_desc["ts"][0])),
        "vec" => MV::l(vec![conv_mv(old, &new_desc["ts"][0])]),
        _ => old.clone(),
    }
}
pub fn convert<O: Model, N: Model>(o: &O, new_desc_json: &str) -> N {
    let t: serde_json::Value = serde_json::from_str(new_desc_json).expect("descriptor json");
    N::from_model(&conv_mv(&o.to_model(), &t))
}

/// Projects the serde JSON of a real `savefile::Schema` onto the uniform schema node of spec/Schema.tla
/// [k, s, n, ts, sz, al, off, lay, er].  Purely syntactic.
pub fn schema_node(v: &serde_json::Value) -> serde_json::Value {
    use serde_json::{json, Value};
    fn node(k: &str, s: &str, n: i64, ts: Vec<Value>) -> Value {
        json!({"k": k, "s": s, "n": n, "ts": ts, "sz": -1, "al": -1, "off": -1, "lay": "", "er": false})
    }
    fn opt(v: &Value) -> i64 {
        v.as_i64().unwrap_or(-1)
    }
    fn fields(fs: &Value) -> Vec<Value> {
        fs.as_array()
            .unwrap()
            .iter()
            .map(|f| {
                let mut n = schema_node(&f["value"]);
                n["off"] = json!(opt(&f["offset"]));
                n
            })
            .collect()
    }
    match v {
        Value::String(s) => match s.as_str() {
            "Undefined" => node("undefined", "", 0, vec![]),
            "ZeroSize" => node("zero", "", 0, vec![]),
            "Str" => node("str", "", 0, vec![]),
            "StdIoError" => node("ioerror", "", 0, vec![]),
            "UninitSlice" => node("other", "UninitSlice", 0, vec![]),
            "UtcTimestamp" => node("utc", "", 0, vec![]),
            other => node("other", other, 0, vec![]),
        },
        Value::Object(m) => {
            let (tag, body) = m.iter().next().unwrap();
            match tag.as_str() {
                "Struct" => {
                    let mut n = node("struct", body["dbg_name"].as_str().unwrap(), 0, fields(&body["fields"]));
                    n["sz"] = json!(opt(&body["size"]));
                    n["al"] = json!(opt(&body["alignment"]));
                    n
                }
                "Enum" => {
                    let vars = body["variants"]
                        .as_array()
                        .unwrap()
                        .iter()
                        .map(|va| node("variant", va["name"].as_str().unwrap(), va["discriminant"].as_i64().unwrap(), fields(&va["fields"])))
                        .collect();
                    let mut n = node("enum", body["dbg_name"].as_str().unwrap(), body["discriminant_size"].as_i64().unwrap(), vars);
                    n["sz"] = json!(opt(&body["size"]));
                    n["al"] = json!(opt(&body["alignment"]));
                    n["er"] = json!(body["has_explicit_repr"].as_bool().unwrap());
                    n
                }
                "Primitive" => match body {
                    Value::String(p) => node("prim", p.trim_start_matches("schema_"), 0, vec![]),
                    Value::Object(pm) => {
                        let (pt, lay) = pm.iter().next().unwrap();
                        let mut n = node("prim", pt.trim_start_matches("schema_"), 0, vec![]);
                        n["lay"] = json!(lay.as_str().unwrap_or(""));
                        n
                    }
                    _ => node("other", "prim?", 0, vec![]),
                },
                "Vector" => {
                    let mut n = node("vector", "", 0, vec![schema_node(&body[0])]);
                    n["lay"] = json!(body[1].as_str().unwrap_or(""));
                    n
                }
                "Array" => node("array", "", body["count"].as_i64().unwrap(), vec![schema_node(&body["item_type"])]),
                "SchemaOption" => node("option", "", 0, vec![schema_node(body)]),
                "Custom" => node("custom", body.as_str().unwrap_or(""), 0, vec![]),
                "Boxed" => node("boxed", "", 0, vec![schema_node(body)]),
                "Slice" => node("slice", "", 0, vec![schema_node(body)]),
                "Reference" => node("ref", "", 0, vec![schema_node(body)]),
                "Recursion" => node("recursion", "", body.as_i64().unwrap_or(0), vec![]),
                other => node("other", other, 0, vec![]),
            }
        }
        _ => node("other", "?", 0, vec![]),
    }
}

pub mod model;
pub mod ops;
pub mod tap;

pub use model::{Model, MV};
pub use ops::*;
pub use tap::*;

/// canonical JSON (sorted keys, no whitespace) — must agree with gen/ (python json.dumps(sort_keys, separators))
pub fn canon(v: &serde_json::Value) -> String {
    fn go(v: &serde_json::Value, out: &mut String) {
        match v {
            serde_json::Value::Object(m) => {
                let mut keys: Vec<&String> = m.keys().collect();
                keys.sort();
                out.push('{');
                for (i, k) in keys.iter().enumerate() {
                    if i > 0 {
                        out.push(',');
                    }
                    out.push_str(&serde_json::to_string(k).unwrap());
                    out.push(':');
                    go(&m[*k], out);
                }
                out.push('}');
            }
            serde_json::Value::Array(a) => {
                out.push('[');
                for (i, x) in a.iter().enumerate() {
                    if i > 0 {
                        out.push(',');
                    }
                    go(x, out);
                }
                out.push(']');
            }
            other => out.push_str(&serde_json::to_string(other).unwrap()),
        }
    }
    let mut s = String::new();
    go(v, &mut s);
    s
}

/// Wire!PrimWidth
pub fn prim_width(name: &str) -> usize {
    match name {
        "u8" | "i8" | "bool" => 1,
        "u16" | "i16" => 2,
        "u32" | "i32" | "f32" | "char" => 4,
        "u64" | "i64" | "f64" | "usize" | "isize" => 8,
        "u128" | "i128" => 16,
        _ => 0,
    }
}
/// Wire!DefaultOf (only the shapes the generator uses for defaults)
pub fn default_mv(t: &serde_json::Value) -> MV {
    let k = t["k"].as_str().unwrap();
    let ts = t["ts"].as_array().unwrap();
    match k {
        "p" => MV::b(vec![0; prim_width(t["s"].as_str().unwrap())]),
        "str" => MV::b(vec![]),
        "vec" | "map" => MV::l(vec![]),
        "arr" => MV::l((0..t["n"].as_u64().unwrap()).map(|_| default_mv(&ts[0])).collect()),
        "opt" => MV::none(),
        "box" => default_mv(&ts[0]),
        "tup" => MV::l(ts.iter().map(default_mv).collect()),
        "struct" => MV::l(
            ts.iter()
                .enumerate()
                .map(|(i, x)| {
                    let a = &t["fa"][i];
                    if a["rm"] != "no" || a["ig"] == true {
                        MV::unit()
                    } else {
                        default_mv(x)
                    }
                })
                .collect(),
        ),
        "enum" => MV::ev(0, ts[0]["ts"].as_array().unwrap().iter().map(default_mv).collect()),
        other => panic!("default_mv: unsupported kind {}", other),
    }
}
/// Wire!WitnessOf
pub fn witness_mv(t: &serde_json::Value) -> MV {
    let k = t["k"].as_str().unwrap();
    let ts = t["ts"].as_array().unwrap();
    match k {
        "p" => {
            let s = t["s"].as_str().unwrap();
            match s {
                "bool" => MV::b(vec![1]),
                "char" => MV::b(vec![90, 0, 0, 0]),
                "f32" => MV::b(vec![0, 0, 128, 63]),
                "f64" => MV::b(vec![0, 0, 0, 0, 0, 0, 240, 63]),
                _ => {
                    let mut b = vec![0u8; prim_width(s)];
                    if !b.is_empty() {
                        b[0] = 7;
                    }
                    MV::b(b)
                }
            }
        }
        "str" => MV::b(vec![100, 102]),
        "vec" => MV::l(vec![witness_mv(&ts[0])]),
        "opt" => MV::some(witness_mv(&ts[0])),
        "box" => witness_mv(&ts[0]),
        "arr" => MV::l((0..t["n"].as_u64().unwrap()).map(|_| witness_mv(&ts[0])).collect()),
        "tup" => MV::l(ts.iter().map(witness_mv).collect()),
        _ => default_mv(t),
    }
}
pub fn witness<T: Model>(desc_json: &str) -> T {
    let t: serde_json::Value = serde_json::from_str(desc_json).expect("descriptor json");
    T::from_model(&witness_mv(&t))
}
/// Wire!Conv : the conversion function used by generated `savefile_versions_as` fields
pub fn conv_mv(old: &MV, new_desc: &serde_json::Value) -> MV {
    let k = new_desc["k"].as_str().unwrap();
    match k {
        "p" => {
            let w = prim_width(new_desc["s"].as_str().unwrap());
            let mut b = old.bs.clone();
            b.resize(w, 0);
            MV::b(b)
        }
        "opt" => MV::some(conv_mv(old, &new_desc["ts"][0])),
        "vec" => MV::l(vec![conv_mv(old, &new_desc["ts"][0])]),
        _ => old.clone(),
    }
}
pub fn convert<O: Model, N: Model>(o: &O, new_desc_json: &str) -> N {
    let t: serde_json::Value = serde_json::from_str(new_desc_json).expect("descriptor json");
    N::from_model(&conv_mv(&o.to_model(), &t))
}

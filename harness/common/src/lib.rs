pub mod abi;
pub mod model;
pub mod ops;
pub mod tap;

pub use model::{Model, RecList, RecTree, MV};
pub use ops::*;
pub use tap::*;

/// canonical JSON (sorted keys, no whitespace) — must agree with gen/ (python json.dumps(sort_keys, separators))
pub fn canon(v: &serde_json::Value) -> String {
    fn go(v: &serde_json::Value, out: &mut String) {
        match v {
            serde_json::Value::Object(m) => {
                let mut keys: Vec<&String> = m.keys().collect();
                keys.sort();
                out.push('{');
                for (i, k) in keys.iter().enumerate() {
                    if i > 0 {
                        out.push(',');
                    }
                    out.push_str(&serde_json::to_string(k).unwrap());
                    out.push(':');
                    go(&m[*k], out);
                }
                out.push('}');
            }
            serde_json::Value::Array(a) => {
                out.push('[');
                for (i, x) in a.iter().enumerate() {
                    if i > 0 {
                        out.push(',');
                    }
                    go(x, out);
                }
                out.push(']');
            }
            other => out.push_str(&serde_json::to_string(other).unwrap()),
        }
    }
    let mut s = String::new();
    go(v, &mut s);
    s
}

/// Wire!PrimWidth
pub fn prim_width(name: &str) -> usize {
    match name {
        "u8" | "i8" | "bool" => 1,
        "u16" | "i16" => 2,
        "u32" | "i32" | "f32" | "char" => 4,
        "u64" | "i64" | "f64" | "usize" | "isize" => 8,
        "u128" | "i128" => 16,
        _ => 0,
    }
}
/// Wire!DefaultOf (only the shapes the generator uses for defaults)
pub fn default_mv(t: &serde_json::Value) -> MV {
    let k = t["k"].as_str().unwrap();
    let ts = t["ts"].as_array().unwrap();
    match k {
        "p" => MV::b(vec![0; prim_width(t["s"].as_str().unwrap())]),
        "str" => MV::b(vec![]),
        "vec" | "map" => MV::l(vec![]),
        "arr" => MV::l((0..t["n"].as_u64().unwrap()).map(|_| default_mv(&ts[0])).collect()),
        "opt" => MV::none(),
        "box" => default_mv(&ts[0]),
        "tup" => MV::l(ts.iter().map(default_mv).collect()),
        "struct" => MV::l(
            ts.iter()
                .enumerate()
                .map(|(i, x)| {
                    let a = &t["fa"][i];
                    if a["rm"] != "no" || a["ig"] == true {
                        MV::unit()
                    } else {
                        default_mv(x)
                    }
                })
                .collect(),
        ),
        "enum" => MV::ev(0, ts[0]["ts"].as_array().unwrap().iter().map(default_mv).collect()),
        other => panic!("default_mv: unsupported kind {}", other),
    }
}
/// Wire!WitnessOf
pub fn witness_mv(t: &serde_json::Value) -> MV {
    let k = t["k"].as_str().unwrap();
    let ts = t["ts"].as_array().unwrap();
    match k {
        "p" => {
            let s = t["s"].as_str().unwrap();
            match s {
                "bool" => MV::b(vec![1]),
                "char" => MV::b(vec![90, 0, 0, 0]),
                "f32" => MV::b(vec![0, 0, 128, 63]),
                "f64" => MV::b(vec![0, 0, 0, 0, 0, 0, 240, 63]),
                _ => {
                    let mut b = vec![0u8; prim_width(s)];
                    if !b.is_empty() {
                        b[0] = 7;
                    }
                    MV::b(b)
                }
            }
        }
        "str" => MV::b(vec![100, 102]),
        "vec" => MV::l(vec![witness_mv(&ts[0])]),
        "opt" => MV::some(witness_mv(&ts[0])),
        "box" => witness_mv(&ts[0]),
        "arr" => MV::l((0..t["n"].as_u64().unwrap()).map(|_| witness_mv(&ts[0])).collect()),
        "tup" => MV::l(ts.iter().map(witness_mv).collect()),
        _ => default_mv(t),
    }
}
pub fn witness<T: Model>(desc_json: &str) -> T {
    let t: serde_json::Value = serde_json::from_str(desc_json).expect("descriptor json");
    T::from_model(&witness_mv(&t))
}
/// Wire!Conv : the conversion function used by generated `savefile_versions_as` fields
pub fn conv_mv(old: &MV, new_desc: &serde_json::Value) -> MV {
    let k = new_desc["k"].as_str().unwrap();
    match k {
        "p" => {
            let w = prim_width(new_desc["s"].as_str().unwrap());
            let mut b = old.bs.clone();
            b.resize(w, 0);
            MV::b(b)
        }
        "opt" => MV::some(conv_mv(old, &new_desc["ts"][0])),
        "vec" => MV::l(vec![conv_mv(old, &new_desc["ts"][0])]),
        _ => old.clone(),
    }
}
pub fn convert<O: Model, N: Model>(o: &O, new_desc_json: &str) -> N {
    let t: serde_json::Value = serde_json::from_str(new_desc_json).expect("descriptor json");
    N::from_model(&conv_mv(&o.to_model(), &t))
}

/// Projects the serde JSON of a real `savefile::Schema` onto the uniform schema node of spec/Schema.tla
/// [k, s, n, ts, sz, al, off, lay, er, nm].  Purely syntactic.
pub fn schema_node(v: &serde_json::Value) -> serde_json::Value {
    use serde_json::{json, Value};
    fn node(k: &str, s: &str, n: i64, ts: Vec<Value>) -> Value {
        json!({"k": k, "s": s, "n": n, "ts": ts, "sz": -1, "al": -1, "off": -1, "lay": "", "er": false, "nm": ""})
    }
    // AbiTraitDefinition -> "traitdef" node (s = name, n = sync + 2 send, ts = "method" nodes)
    fn traitdef(d: &Value) -> Value {
        let methods = d["methods"]
            .as_array()
            .unwrap()
            .iter()
            .map(|m| {
                let info = &m["info"];
                let rc = match info["receiver"].as_str().unwrap_or("Shared") {
                    "Shared" => 0,
                    "Mut" => 1,
                    _ => 2,
                };
                let asy = if info["async_trait_heuristic"].as_bool().unwrap_or(false) { 4 } else { 0 };
                let mut ts = vec![schema_node(&info["return_value"])];
                ts.extend(info["arguments"].as_array().unwrap().iter().map(|a| schema_node(&a["schema"])));
                node("method", m["name"].as_str().unwrap(), rc + asy, ts)
            })
            .collect();
        let fl = (if d["sync"].as_bool().unwrap() { 1 } else { 0 }) + (if d["send"].as_bool().unwrap() { 2 } else { 0 });
        node("traitdef", d["name"].as_str().unwrap(), fl, methods)
    }
    fn opt(v: &Value) -> i64 {
        v.as_i64().unwrap_or(-1)
    }
    fn fields(fs: &Value) -> Vec<Value> {
        fs.as_array()
            .unwrap()
            .iter()
            .map(|f| {
                let mut n = schema_node(&f["value"]);
                n["off"] = json!(opt(&f["offset"]));
                n["nm"] = json!(f["name"].as_str().unwrap_or(""));
                n
            })
            .collect()
    }
    match v {
        Value::String(s) => match s.as_str() {
            "Undefined" => node("undefined", "", 0, vec![]),
            "ZeroSize" => node("zero", "", 0, vec![]),
            "Str" => node("str", "", 0, vec![]),
            "StdIoError" => node("ioerror", "", 0, vec![]),
            "UninitSlice" => node("uninit", "", 0, vec![]),
            "UtcTimestamp" => node("utc", "", 0, vec![]),
            other => node("other", other, 0, vec![]),
        },
        Value::Object(m) => {
            let (tag, body) = m.iter().next().unwrap();
            match tag.as_str() {
                "Struct" => {
                    let mut n = node("struct", body["dbg_name"].as_str().unwrap(), 0, fields(&body["fields"]));
                    n["sz"] = json!(opt(&body["size"]));
                    n["al"] = json!(opt(&body["alignment"]));
                    n
                }
                "Enum" => {
                    let vars = body["variants"]
                        .as_array()
                        .unwrap()
                        .iter()
                        .map(|va| node("variant", va["name"].as_str().unwrap(), va["discriminant"].as_i64().unwrap(), fields(&va["fields"])))
                        .collect();
                    let mut n = node("enum", body["dbg_name"].as_str().unwrap(), body["discriminant_size"].as_i64().unwrap(), vars);
                    n["sz"] = json!(opt(&body["size"]));
                    n["al"] = json!(opt(&body["alignment"]));
                    n["er"] = json!(body["has_explicit_repr"].as_bool().unwrap());
                    n
                }
                "Primitive" => match body {
                    Value::String(p) => node("prim", p.trim_start_matches("schema_"), 0, vec![]),
                    Value::Object(pm) => {
                        let (pt, lay) = pm.iter().next().unwrap();
                        let mut n = node("prim", pt.trim_start_matches("schema_"), 0, vec![]);
                        n["lay"] = json!(lay.as_str().unwrap_or(""));
                        n
                    }
                    _ => node("other", "prim?", 0, vec![]),
                },
                "Vector" => {
                    let mut n = node("vector", "", 0, vec![schema_node(&body[0])]);
                    n["lay"] = json!(body[1].as_str().unwrap_or(""));
                    n
                }
                "Array" => node("array", "", body["count"].as_i64().unwrap(), vec![schema_node(&body["item_type"])]),
                "SchemaOption" => node("option", "", 0, vec![schema_node(body)]),
                "Custom" => node("custom", body.as_str().unwrap_or(""), 0, vec![]),
                "Boxed" => node("boxed", "", 0, vec![schema_node(body)]),
                "Slice" => node("slice", "", 0, vec![schema_node(body)]),
                "Reference" => node("ref", "", 0, vec![schema_node(body)]),
                "Recursion" => node("recursion", "", body.as_i64().unwrap_or(0), vec![]),
                "Trait" => node("trait", "", if body[0].as_bool().unwrap() { 1 } else { 0 }, vec![traitdef(&body[1])]),
                "FnClosure" => node("fnclosure", "", if body[0].as_bool().unwrap() { 1 } else { 0 }, vec![traitdef(&body[1])]),
                "Future" => {
                    let b = |i: usize| if body[i].as_bool().unwrap() { 1i64 } else { 0 };
                    node("future", "", b(1) + 2 * b(2) + 4 * b(3), vec![traitdef(&body[0])])
                }
                other => node("other", other, 0, vec![]),
            }
        }
        _ => node("other", "?", 0, vec![]),
    }
}

/// runs f in a forked child and returns its JSON result; a child killed by a signal yields a "died" observation
pub fn in_child(f: impl FnOnce() -> serde_json::Value) -> serde_json::Value {
    use std::io::Read;
    use std::os::unix::io::FromRawFd;
    unsafe {
        let mut fds = [0i32; 2];
        if libc::pipe(fds.as_mut_ptr()) != 0 {
            return f();
        }
        let pid = libc::fork();
        if pid == 0 {
            libc::close(fds[0]);
            let devnull = libc::open(b"/dev/null\0".as_ptr() as *const libc::c_char, libc::O_WRONLY);
            libc::dup2(devnull, 2);
            let v = f();
            let s = serde_json::to_vec(&v).unwrap();
            let mut w = std::fs::File::from_raw_fd(fds[1]);
            let _ = std::io::Write::write_all(&mut w, &s);
            drop(w);
            libc::_exit(0);
        }
        libc::close(fds[1]);
        let mut r = std::fs::File::from_raw_fd(fds[0]);
        let mut buf = Vec::new();
        let _ = r.read_to_end(&mut buf);
        let mut status = 0i32;
        libc::waitpid(pid, &mut status, 0);
        if libc::WIFSIGNALED(status) || buf.is_empty() {
            let sig = if libc::WIFSIGNALED(status) { libc::WTERMSIG(status) } else { 0 };
            // SIGABRT after a failed allocation is what std's handle_alloc_error does
            return serde_json::json!({"real": "died", "msg": format!("child killed by signal {}", sig), "rpos": 0, "reser": [], "oom": sig == libc::SIGABRT});
        }
        serde_json::from_slice(&buf).unwrap_or(serde_json::json!({"real": "died", "msg": "unreadable child result", "rpos": 0, "reser": [], "oom": false}))
    }
}


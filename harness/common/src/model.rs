//! Model values (the uniform [k, n, bs, vs] records of spec/Wire.tla) and the
//! `Model` trait that converts them to and from real Rust values.  Nothing in
//! here calls savefile: conversions use from_le_bytes / from_bits etc., so that
//! the projection is independent of the code under test.
use serde::{Deserialize, Serialize};
use std::borrow::Cow;
use std::cell::{Cell, RefCell};
use std::collections::{BTreeMap, BTreeSet, BinaryHeap, HashMap, HashSet, VecDeque};
use std::hash::Hash;
use std::marker::PhantomData;
use std::net::{IpAddr, Ipv4Addr, Ipv6Addr, SocketAddr, SocketAddrV4, SocketAddrV6};
use std::path::PathBuf;
use std::rc::Rc;
use std::sync::atomic::*;
use std::sync::Arc;
use std::time::{Duration, SystemTime};

#[derive(Clone, Debug, PartialEq, Eq, PartialOrd, Ord, Hash, Serialize, Deserialize)]
pub struct MV {
    pub k: String,
    pub n: i64,
    pub bs: Vec<u8>,
    pub vs: Vec<MV>,
}
impl MV {
    pub fn b(bs: Vec<u8>) -> MV {
        MV { k: "b".into(), n: 0, bs, vs: vec![] }
    }
    pub fn l(vs: Vec<MV>) -> MV {
        MV { k: "l".into(), n: 0, bs: vec![], vs }
    }
    pub fn unit() -> MV {
        MV::l(vec![])
    }
    pub fn none() -> MV {
        MV { k: "o".into(), n: 0, bs: vec![], vs: vec![] }
    }
    pub fn some(v: MV) -> MV {
        MV { k: "o".into(), n: 1, bs: vec![], vs: vec![v] }
    }
    pub fn res(ok: bool, v: MV) -> MV {
        MV { k: "r".into(), n: if ok { 1 } else { 0 }, bs: vec![], vs: vec![v] }
    }
    pub fn ev(idx: usize, vs: Vec<MV>) -> MV {
        MV { k: "e".into(), n: idx as i64, bs: vec![], vs }
    }
    pub fn conv(v: MV) -> MV {
        MV { k: "conv".into(), n: 0, bs: vec![], vs: vec![v] }
    }
}

pub trait Model: Sized {
    fn from_model(v: &MV) -> Self;
    fn to_model(&self) -> MV;
}

macro_rules! int_model {
    ($($t:ty),*) => {$(
        impl Model for $t {
            fn from_model(v: &MV) -> Self { <$t>::from_le_bytes(v.bs[..].try_into().expect("width")) }
            fn to_model(&self) -> MV { MV::b(self.to_le_bytes().to_vec()) }
        }
    )*};
}
int_model!(u8, i8, u16, i16, u32, i32, u64, i64, u128, i128);
impl Model for usize {
    fn from_model(v: &MV) -> Self {
        u64::from_model(v) as usize
    }
    fn to_model(&self) -> MV {
        (*self as u64).to_model()
    }
}
impl Model for isize {
    fn from_model(v: &MV) -> Self {
        i64::from_model(v) as isize
    }
    fn to_model(&self) -> MV {
        (*self as i64).to_model()
    }
}
impl Model for f32 {
    fn from_model(v: &MV) -> Self {
        f32::from_bits(u32::from_model(v))
    }
    fn to_model(&self) -> MV {
        self.to_bits().to_model()
    }
}
impl Model for f64 {
    fn from_model(v: &MV) -> Self {
        f64::from_bits(u64::from_model(v))
    }
    fn to_model(&self) -> MV {
        self.to_bits().to_model()
    }
}
impl Model for bool {
    fn from_model(v: &MV) -> Self {
        v.bs[0] != 0
    }
    fn to_model(&self) -> MV {
        MV::b(vec![if *self { 1 } else { 0 }])
    }
}
impl Model for char {
    fn from_model(v: &MV) -> Self {
        char::from_u32(u32::from_model(v)).expect("model char is a scalar value")
    }
    fn to_model(&self) -> MV {
        (*self as u32).to_model()
    }
}
impl Model for () {
    fn from_model(_v: &MV) -> Self {}
    fn to_model(&self) -> MV {
        MV::b(vec![])
    }
}
impl Model for String {
    fn from_model(v: &MV) -> Self {
        String::from_utf8(v.bs.clone()).expect("model string is utf8")
    }
    fn to_model(&self) -> MV {
        MV::b(self.as_bytes().to_vec())
    }
}
impl Model for Arc<str> {
    fn from_model(v: &MV) -> Self {
        String::from_model(v).into()
    }
    fn to_model(&self) -> MV {
        MV::b(self.as_bytes().to_vec())
    }
}
impl Model for PathBuf {
    fn from_model(v: &MV) -> Self {
        PathBuf::from(String::from_model(v))
    }
    fn to_model(&self) -> MV {
        MV::b(self.to_str().expect("utf8 path").as_bytes().to_vec())
    }
}
impl Model for Cow<'static, str> {
    fn from_model(v: &MV) -> Self {
        Cow::Owned(String::from_model(v))
    }
    fn to_model(&self) -> MV {
        MV::b(self.as_bytes().to_vec())
    }
}
impl<T: Model + Clone + 'static> Model for Cow<'static, T> {
    fn from_model(v: &MV) -> Self {
        Cow::Owned(T::from_model(v))
    }
    fn to_model(&self) -> MV {
        (**self).to_model()
    }
}

fn seq_from<T: Model>(v: &MV) -> Vec<T> {
    v.vs.iter().map(T::from_model).collect()
}
fn seq_to<'a, T: Model + 'a>(it: impl Iterator<Item = &'a T>) -> MV {
    MV::l(it.map(|x| x.to_model()).collect())
}
fn sorted(mut m: MV) -> MV {
    m.vs.sort();
    m
}
impl<T: Model> Model for Vec<T> {
    fn from_model(v: &MV) -> Self {
        seq_from(v)
    }
    fn to_model(&self) -> MV {
        seq_to(self.iter())
    }
}
impl<T: Model> Model for VecDeque<T> {
    fn from_model(v: &MV) -> Self {
        // build a WRAPPED ring buffer (both as_slices() parts non-empty when len >= 2): the back half is
        // pushed at the back, the front half at the front
        let items: Vec<T> = seq_from(v);
        let n = items.len();
        let mut d = VecDeque::with_capacity(n + 1);
        let mut front = Vec::new();
        for (i, x) in items.into_iter().enumerate() {
            if i < n / 2 {
                front.push(x);
            } else {
                d.push_back(x);
            }
        }
        for x in front.into_iter().rev() {
            d.push_front(x);
        }
        d
    }
    fn to_model(&self) -> MV {
        seq_to(self.iter())
    }
}
impl<T: Model> Model for Box<[T]> {
    fn from_model(v: &MV) -> Self {
        seq_from::<T>(v).into_boxed_slice()
    }
    fn to_model(&self) -> MV {
        seq_to(self.iter())
    }
}
impl<T: Model> Model for Arc<[T]> {
    fn from_model(v: &MV) -> Self {
        seq_from::<T>(v).into()
    }
    fn to_model(&self) -> MV {
        seq_to(self.iter())
    }
}
impl<T: Model + Ord> Model for BinaryHeap<T> {
    fn from_model(v: &MV) -> Self {
        seq_from::<T>(v).into()
    }
    fn to_model(&self) -> MV {
        sorted(seq_to(self.iter()))
    }
}
impl<T: Model + Ord> Model for BTreeSet<T> {
    fn from_model(v: &MV) -> Self {
        seq_from::<T>(v).into_iter().collect()
    }
    fn to_model(&self) -> MV {
        seq_to(self.iter())
    }
}
impl<T: Model + Eq + Hash, S: std::hash::BuildHasher + Default> Model for HashSet<T, S> {
    fn from_model(v: &MV) -> Self {
        seq_from::<T>(v).into_iter().collect()
    }
    fn to_model(&self) -> MV {
        sorted(seq_to(self.iter()))
    }
}
impl<T: Model + Eq + Hash> Model for indexmap::IndexSet<T> {
    fn from_model(v: &MV) -> Self {
        seq_from::<T>(v).into_iter().collect()
    }
    fn to_model(&self) -> MV {
        seq_to(self.iter())
    }
}
impl<T: Model, const N: usize> Model for smallvec::SmallVec<[T; N]>
where
    [T; N]: smallvec::Array<Item = T>,
{
    fn from_model(v: &MV) -> Self {
        seq_from::<T>(v).into_iter().collect()
    }
    fn to_model(&self) -> MV {
        seq_to(self.iter())
    }
}
impl<T: Model, const N: usize> Model for arrayvec::ArrayVec<T, N> {
    fn from_model(v: &MV) -> Self {
        seq_from::<T>(v).into_iter().collect()
    }
    fn to_model(&self) -> MV {
        seq_to(self.iter())
    }
}
impl<const N: usize> Model for arrayvec::ArrayString<N> {
    fn from_model(v: &MV) -> Self {
        arrayvec::ArrayString::from(&String::from_model(v)).expect("fits")
    }
    fn to_model(&self) -> MV {
        MV::b(self.as_bytes().to_vec())
    }
}
impl<T: Model, const N: usize> Model for [T; N] {
    fn from_model(v: &MV) -> Self {
        let items: Vec<T> = seq_from(v);
        match items.try_into() {
            Ok(a) => a,
            Err(_) => panic!("array length mismatch"),
        }
    }
    fn to_model(&self) -> MV {
        seq_to(self.iter())
    }
}
impl<T: Model> Model for Option<T> {
    fn from_model(v: &MV) -> Self {
        if v.n == 0 {
            None
        } else {
            Some(T::from_model(&v.vs[0]))
        }
    }
    fn to_model(&self) -> MV {
        match self {
            None => MV::none(),
            Some(x) => MV::some(x.to_model()),
        }
    }
}
impl<T: Model, E: Model> Model for Result<T, E> {
    fn from_model(v: &MV) -> Self {
        if v.n == 1 {
            Ok(T::from_model(&v.vs[0]))
        } else {
            Err(E::from_model(&v.vs[0]))
        }
    }
    fn to_model(&self) -> MV {
        match self {
            Ok(x) => MV::res(true, x.to_model()),
            Err(x) => MV::res(false, x.to_model()),
        }
    }
}
macro_rules! wrap_model {
    ($($w:ident),*) => {$(
        impl<T: Model> Model for $w<T> {
            fn from_model(v: &MV) -> Self { $w::new(T::from_model(v)) }
            fn to_model(&self) -> MV { (**self).to_model() }
        }
    )*};
}
wrap_model!(Box, Rc, Arc);
impl<T: Model + Copy> Model for Cell<T> {
    fn from_model(v: &MV) -> Self {
        Cell::new(T::from_model(v))
    }
    fn to_model(&self) -> MV {
        self.get().to_model()
    }
}
impl<T: Model> Model for RefCell<T> {
    fn from_model(v: &MV) -> Self {
        RefCell::new(T::from_model(v))
    }
    fn to_model(&self) -> MV {
        self.borrow().to_model()
    }
}
impl<T: Model> Model for parking_lot::Mutex<T> {
    fn from_model(v: &MV) -> Self {
        parking_lot::Mutex::new(T::from_model(v))
    }
    fn to_model(&self) -> MV {
        self.lock().to_model()
    }
}
impl<T: Model> Model for std::sync::Mutex<T> {
    fn from_model(v: &MV) -> Self {
        std::sync::Mutex::new(T::from_model(v))
    }
    fn to_model(&self) -> MV {
        self.lock().unwrap().to_model()
    }
}
impl<T: Model> Model for parking_lot::RwLock<T> {
    fn from_model(v: &MV) -> Self {
        parking_lot::RwLock::new(T::from_model(v))
    }
    fn to_model(&self) -> MV {
        self.read().to_model()
    }
}
impl<A: Model> Model for (A,) {
    fn from_model(v: &MV) -> Self {
        (A::from_model(&v.vs[0]),)
    }
    fn to_model(&self) -> MV {
        MV::l(vec![self.0.to_model()])
    }
}
impl<A: Model, B: Model> Model for (A, B) {
    fn from_model(v: &MV) -> Self {
        (A::from_model(&v.vs[0]), B::from_model(&v.vs[1]))
    }
    fn to_model(&self) -> MV {
        MV::l(vec![self.0.to_model(), self.1.to_model()])
    }
}
impl<A: Model> Model for std::ops::Range<A> {
    fn from_model(v: &MV) -> Self {
        A::from_model(&v.vs[0])..A::from_model(&v.vs[1])
    }
    fn to_model(&self) -> MV {
        MV::l(vec![self.start.to_model(), self.end.to_model()])
    }
}
impl<A: Model, B: Model, C: Model> Model for (A, B, C) {
    fn from_model(v: &MV) -> Self {
        (A::from_model(&v.vs[0]), B::from_model(&v.vs[1]), C::from_model(&v.vs[2]))
    }
    fn to_model(&self) -> MV {
        MV::l(vec![self.0.to_model(), self.1.to_model(), self.2.to_model()])
    }
}
impl<A: Model, B: Model, C: Model, D: Model> Model for (A, B, C, D) {
    fn from_model(v: &MV) -> Self {
        (
            A::from_model(&v.vs[0]),
            B::from_model(&v.vs[1]),
            C::from_model(&v.vs[2]),
            D::from_model(&v.vs[3]),
        )
    }
    fn to_model(&self) -> MV {
        MV::l(vec![self.0.to_model(), self.1.to_model(), self.2.to_model(), self.3.to_model()])
    }
}
fn pairs_from<K: Model, V: Model>(v: &MV) -> Vec<(K, V)> {
    v.vs.chunks(2).map(|c| (K::from_model(&c[0]), V::from_model(&c[1]))).collect()
}
fn pairs_to<'a, K: Model + 'a, V: Model + 'a>(it: impl Iterator<Item = (&'a K, &'a V)>, sort: bool) -> MV {
    let mut ps: Vec<(MV, MV)> = it.map(|(k, v)| (k.to_model(), v.to_model())).collect();
    if sort {
        ps.sort();
    }
    MV::l(ps.into_iter().flat_map(|(k, v)| [k, v]).collect())
}
impl<K: Model + Ord, V: Model> Model for BTreeMap<K, V> {
    fn from_model(v: &MV) -> Self {
        pairs_from(v).into_iter().collect()
    }
    fn to_model(&self) -> MV {
        pairs_to(self.iter(), false)
    }
}
impl<K: Model + Eq + Hash, V: Model, S: std::hash::BuildHasher + Default> Model for HashMap<K, V, S> {
    fn from_model(v: &MV) -> Self {
        pairs_from(v).into_iter().collect()
    }
    fn to_model(&self) -> MV {
        pairs_to(self.iter(), true)
    }
}
impl<K: Model + Eq + Hash, V: Model> Model for indexmap::IndexMap<K, V> {
    fn from_model(v: &MV) -> Self {
        pairs_from(v).into_iter().collect()
    }
    fn to_model(&self) -> MV {
        pairs_to(self.iter(), false)
    }
}

// ---- library types, via their wire-equivalent descriptor (Wire!LibEquiv) ----
impl Model for IpAddr {
    fn from_model(v: &MV) -> Self {
        if v.n == 0 {
            IpAddr::V4(Ipv4Addr::from(u32::from_model(&v.vs[0])))
        } else {
            IpAddr::V6(Ipv6Addr::from(u128::from_model(&v.vs[0])))
        }
    }
    fn to_model(&self) -> MV {
        match self {
            IpAddr::V4(a) => MV::ev(0, vec![u32::from(*a).to_model()]),
            IpAddr::V6(a) => MV::ev(1, vec![u128::from(*a).to_model()]),
        }
    }
}
impl Model for SocketAddr {
    fn from_model(v: &MV) -> Self {
        if v.n == 0 {
            SocketAddr::V4(SocketAddrV4::new(
                Ipv4Addr::from(u32::from_model(&v.vs[1])),
                u16::from_model(&v.vs[0]),
            ))
        } else {
            SocketAddr::V6(SocketAddrV6::new(
                Ipv6Addr::from(u128::from_model(&v.vs[1])),
                u16::from_model(&v.vs[0]),
                u32::from_model(&v.vs[2]),
                u32::from_model(&v.vs[3]),
            ))
        }
    }
    fn to_model(&self) -> MV {
        match self {
            SocketAddr::V4(a) => MV::ev(0, vec![a.port().to_model(), u32::from(*a.ip()).to_model()]),
            SocketAddr::V6(a) => MV::ev(
                1,
                vec![
                    a.port().to_model(),
                    u128::from(*a.ip()).to_model(),
                    a.flowinfo().to_model(),
                    a.scope_id().to_model(),
                ],
            ),
        }
    }
}
fn dur_from_nanos(n: u128) -> Duration {
    Duration::new((n / 1_000_000_000) as u64, (n % 1_000_000_000) as u32)
}
impl Model for Duration {
    fn from_model(v: &MV) -> Self {
        dur_from_nanos(u128::from_model(v))
    }
    fn to_model(&self) -> MV {
        self.as_nanos().to_model()
    }
}
impl Model for SystemTime {
    fn from_model(v: &MV) -> Self {
        let n = u128::from_model(v);
        if n >> 127 != 0 {
            SystemTime::UNIX_EPOCH - dur_from_nanos(n & ((1u128 << 127) - 1))
        } else {
            SystemTime::UNIX_EPOCH + dur_from_nanos(n)
        }
    }
    fn to_model(&self) -> MV {
        match self.duration_since(SystemTime::UNIX_EPOCH) {
            Ok(d) => d.as_nanos().to_model(),
            Err(e) => (e.duration().as_nanos() | (1u128 << 127)).to_model(),
        }
    }
}
pub fn io_kind_from_code(c: u16) -> std::io::ErrorKind {
    use std::io::ErrorKind::*;
    match c {
        1 => NotFound,
        2 => PermissionDenied,
        3 => ConnectionRefused,
        4 => ConnectionReset,
        7 => ConnectionAborted,
        8 => NotConnected,
        9 => AddrInUse,
        10 => AddrNotAvailable,
        12 => BrokenPipe,
        13 => AlreadyExists,
        14 => WouldBlock,
        21 => InvalidInput,
        22 => InvalidData,
        23 => TimedOut,
        24 => WriteZero,
        36 => Interrupted,
        37 => Unsupported,
        38 => UnexpectedEof,
        39 => OutOfMemory,
        _ => Other,
    }
}
pub fn io_code_from_kind(k: std::io::ErrorKind) -> u16 {
    use std::io::ErrorKind::*;
    match k {
        NotFound => 1,
        PermissionDenied => 2,
        ConnectionRefused => 3,
        ConnectionReset => 4,
        ConnectionAborted => 7,
        NotConnected => 8,
        AddrInUse => 9,
        AddrNotAvailable => 10,
        BrokenPipe => 12,
        AlreadyExists => 13,
        WouldBlock => 14,
        InvalidInput => 21,
        InvalidData => 22,
        TimedOut => 23,
        WriteZero => 24,
        Interrupted => 36,
        Unsupported => 37,
        UnexpectedEof => 38,
        OutOfMemory => 39,
        Other => 40,
        _ => 42,
    }
}
impl Model for std::io::Error {
    fn from_model(v: &MV) -> Self {
        std::io::Error::new(io_kind_from_code(u16::from_model(&v.vs[0])), String::from_model(&v.vs[1]))
    }
    fn to_model(&self) -> MV {
        MV::l(vec![io_code_from_kind(self.kind()).to_model(), self.to_string().to_model()])
    }
}
impl Model for savefile::Canary1 {
    fn from_model(_v: &MV) -> Self {
        savefile::Canary1::new()
    }
    fn to_model(&self) -> MV {
        MV::b(vec![67, 104, 86, 71])
    }
}
impl Model for chrono::DateTime<chrono::Utc> {
    fn from_model(v: &MV) -> Self {
        chrono::DateTime::<chrono::Utc>::from_timestamp_nanos(i64::from_model(v))
    }
    fn to_model(&self) -> MV {
        self.timestamp_nanos_opt().expect("in range").to_model()
    }
}
fn bits_model(nbits: usize, storage: &[u32]) -> MV {
    let mut raw = Vec::new();
    for w in storage {
        raw.extend_from_slice(&w.to_le_bytes());
    }
    MV::l(vec![
        (nbits as u64).to_model(),
        ((raw.len() as u64) | (1u64 << 63)).to_model(),
        MV::b(raw),
    ])
}
fn bits_parts(v: &MV) -> (usize, Vec<u32>) {
    let nbits = u64::from_model(&v.vs[0]) as usize;
    let words = v.vs[2].bs.chunks(4).map(|c| u32::from_le_bytes(c.try_into().unwrap())).collect();
    (nbits, words)
}
impl Model for bit_vec::BitVec {
    fn from_model(v: &MV) -> Self {
        let (nbits, words) = bits_parts(v);
        let mut r = bit_vec::BitVec::new();
        unsafe {
            *r.storage_mut() = words;
            r.set_len(nbits);
        }
        r
    }
    fn to_model(&self) -> MV {
        bits_model(self.len(), self.storage())
    }
}
impl Model for bit_vec08::BitVec {
    fn from_model(v: &MV) -> Self {
        let (nbits, words) = bits_parts(v);
        let mut r = bit_vec08::BitVec::new();
        unsafe {
            *r.storage_mut() = words;
            r.set_len(nbits);
        }
        r
    }
    fn to_model(&self) -> MV {
        bits_model(self.len(), self.storage())
    }
}
impl Model for bit_set::BitSet {
    fn from_model(v: &MV) -> Self {
        bit_set::BitSet::from_bit_vec(bit_vec::BitVec::from_model(v))
    }
    fn to_model(&self) -> MV {
        self.get_ref().to_model()
    }
}
impl Model for bit_set08::BitSet {
    fn from_model(v: &MV) -> Self {
        bit_set08::BitSet::from_bit_vec(bit_vec08::BitVec::from_model(v))
    }
    fn to_model(&self) -> MV {
        self.get_ref().to_model()
    }
}
macro_rules! atomic_model {
    ($($a:ident : $t:ty),*) => {$(
        impl Model for $a {
            fn from_model(v: &MV) -> Self { $a::new(<$t>::from_model(v)) }
            fn to_model(&self) -> MV { self.load(Ordering::SeqCst).to_model() }
        }
    )*};
}
atomic_model!(AtomicBool: bool, AtomicU8: u8, AtomicI8: i8, AtomicU16: u16, AtomicI16: i16, AtomicU32: u32,
    AtomicI32: i32, AtomicU64: u64, AtomicI64: i64, AtomicUsize: usize, AtomicIsize: isize);
impl<T> Model for PhantomData<T> {
    fn from_model(_v: &MV) -> Self {
        PhantomData
    }
    fn to_model(&self) -> MV {
        MV::b(vec![])
    }
}
impl<T> Model for savefile::Removed<T> {
    fn from_model(_v: &MV) -> Self {
        savefile::Removed::new()
    }
    fn to_model(&self) -> MV {
        MV::unit()
    }
}
impl<T: Default> Model for savefile::AbiRemoved<T> {
    fn from_model(_v: &MV) -> Self {
        savefile::AbiRemoved::new()
    }
    fn to_model(&self) -> MV {
        MV::unit()
    }
}

// ---- recursive definitions (spec/Wire.tla LibEquiv "RecTree" / "RecList") -------------------------------------------
#[derive(savefile_derive::Savefile, Debug, Clone, PartialEq, Default)]
pub struct RecTree {
    pub v: u8,
    pub kids: Vec<RecTree>,
}
#[derive(savefile_derive::Savefile, Debug, Clone, PartialEq, Default)]
pub struct RecList {
    pub v: u16,
    pub next: Option<Box<RecList>>,
}
impl Model for RecTree {
    fn from_model(v: &MV) -> Self {
        RecTree { v: u8::from_model(&v.vs[0]), kids: v.vs[1].vs.iter().map(RecTree::from_model).collect() }
    }
    fn to_model(&self) -> MV {
        MV::l(vec![self.v.to_model(), MV::l(self.kids.iter().map(|k| k.to_model()).collect())])
    }
}
impl Model for RecList {
    fn from_model(v: &MV) -> Self {
        RecList { v: u16::from_model(&v.vs[0]), next: if v.vs[1].n == 0 { None } else { Some(Box::new(RecList::from_model(&v.vs[1].vs[0]))) } }
    }
    fn to_model(&self) -> MV {
        MV::l(vec![self.v.to_model(), match &self.next { None => MV::none(), Some(b) => MV::some(b.to_model()) }])
    }
}

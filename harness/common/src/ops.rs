//! Type-erased operations on one catalogue type: everything the replay binaries
//! do with a generated (or library) type goes through `dyn Ops`.
use crate::model::{Model, MV};
use crate::tap::{Tap, TapR};
use savefile::prelude::*;
use savefile::{CryptoReader, CryptoWriter};
use serde::{Deserialize as SerdeDe, Serialize as SerdeSer};
use std::io::Write;
use std::marker::PhantomData;
use std::panic::{catch_unwind, AssertUnwindSafe};

#[derive(Clone, Copy, Debug, PartialEq, Eq, SerdeSer, SerdeDe)]
pub enum Mode {
    Bare,
    Plain,
    NoSchema,
    Bz,
    Crypto,
}
pub const ALL_MODES: [Mode; 5] = [Mode::Bare, Mode::Plain, Mode::NoSchema, Mode::Bz, Mode::Crypto];
pub const KEY: [u8; 32] = [7u8; 32];

/// Result of running code under test: a value, a SavefileError (class + message), or a panic.
#[derive(Clone, Debug, PartialEq, SerdeSer, SerdeDe)]
pub enum Outcome<T> {
    Ok(T),
    Err(String, String),
    Panic(String),
}
impl<T> Outcome<T> {
    pub fn class(&self) -> &'static str {
        match self {
            Outcome::Ok(_) => "ok",
            Outcome::Err(..) => "err",
            Outcome::Panic(_) => "panic",
        }
    }
    pub fn is_ok(&self) -> bool {
        matches!(self, Outcome::Ok(_))
    }
}
pub fn err_class(e: &SavefileError) -> String {
    let d = format!("{:?}", e);
    d.split(|c: char| !c.is_alphanumeric()).next().unwrap_or("").to_string()
}
pub fn panic_msg(p: Box<dyn std::any::Any + Send>) -> String {
    if let Some(s) = p.downcast_ref::<&str>() {
        s.to_string()
    } else if let Some(s) = p.downcast_ref::<String>() {
        s.clone()
    } else {
        "<non-string panic payload>".to_string()
    }
}
pub fn guarded<T>(f: impl FnOnce() -> Result<T, SavefileError>) -> Outcome<T> {
    match catch_unwind(AssertUnwindSafe(f)) {
        Ok(Ok(v)) => Outcome::Ok(v),
        Ok(Err(e)) => Outcome::Err(err_class(&e), format!("{}", e)),
        Err(p) => Outcome::Panic(panic_msg(p)),
    }
}

#[derive(Clone, Debug, Default, SerdeSer, SerdeDe)]
pub struct LayoutInfo {
    pub size: usize,
    pub align: usize,
    /// offsets of the declared fields (structs, tuples); empty otherwise
    pub offs: Vec<usize>,
    /// size_of each declared field type
    pub fsizes: Vec<usize>,
}

pub trait Ops: Send + Sync {
    fn save(&self, v: &MV, ver: u32, mode: Mode, sink: &mut Tap) -> Outcome<()>;
    fn load(&self, src: &mut TapR, ver: u32, mode: Mode) -> Outcome<MV>;
    /// load from `src` and serialize the loaded value again (bare); the value itself is never interpreted by the harness
    fn reload(&self, src: &mut TapR, ver: u32) -> Outcome<Vec<u8>>;
    /// the convenience entry points (files on disk, in-memory buffers): names of those that do NOT bring the value back equal
    /// and, for the schema-less file, the bytes on disk
    fn helpers(&self, v: &MV, ver: u32, dir: &std::path::Path) -> Outcome<(Vec<String>, Vec<u8>)>;
    fn packed(&self, ver: u32) -> bool;
    fn schema(&self, ver: u32) -> Outcome<serde_json::Value>;
    fn schema_obj(&self, ver: u32) -> Schema;
    fn size_align(&self) -> (usize, usize);
    fn type_name(&self) -> &'static str;
}
pub trait IntroOps: Send + Sync {
    /// (introspect_len, number of consecutive children fetchable from 0, first index >= that count
    ///  below count+3 that is fetchable, if any)
    fn introspect_counts(&self, v: &MV) -> Outcome<(usize, usize, Option<usize>)>;
    /// runs f with the value as &dyn Introspect
    fn with_introspect(&self, v: &MV, f: &mut dyn FnMut(&dyn Introspect));
}

pub struct OpsFor<T>(pub PhantomData<fn() -> T>);

pub fn save_t<T: Serialize + WithSchema>(
    val: &T,
    ver: u32,
    mode: Mode,
    sink: &mut Tap,
) -> Result<(), SavefileError> {
    match mode {
        Mode::Bare => Serializer::bare_serialize(sink, ver, val),
        Mode::Plain => savefile::save(sink, ver, val),
        Mode::NoSchema => savefile::save_noschema(sink, ver, val),
        Mode::Bz => savefile::save_compressed(sink, ver, val),
        Mode::Crypto => {
            let mut cw = CryptoWriter::new(sink, KEY)?;
            savefile::save(&mut cw, ver, val)?;
            cw.flush()?;
            Ok(())
        }
    }
}
pub fn load_t<T: Deserialize + WithSchema>(src: &mut TapR, ver: u32, mode: Mode) -> Result<T, SavefileError> {
    match mode {
        Mode::Bare => Deserializer::bare_deserialize(src, ver),
        Mode::Plain | Mode::Bz => savefile::load(src, ver),
        Mode::NoSchema => savefile::load_noschema(src, ver),
        Mode::Crypto => {
            let mut cr = CryptoReader::new(src, KEY)?;
            savefile::load(&mut cr, ver)
        }
    }
}

impl<T> Ops for OpsFor<T>
where
    T: Model + Serialize + Deserialize + WithSchema + Packed + 'static,
{
    fn save(&self, v: &MV, ver: u32, mode: Mode, sink: &mut Tap) -> Outcome<()> {
        let val = T::from_model(v);
        guarded(|| save_t(&val, ver, mode, sink))
    }
    fn load(&self, src: &mut TapR, ver: u32, mode: Mode) -> Outcome<MV> {
        guarded(|| {
            let val: T = load_t(src, ver, mode)?;
            Ok(val.to_model())
        })
    }
    fn helpers(&self, v: &MV, ver: u32, dir: &std::path::Path) -> Outcome<(Vec<String>, Vec<u8>)> {
        let val = T::from_model(v);
        guarded(|| {
            let mut bad = vec![];
            let want = val.to_model();
            let p = dir.join("helper.bin");
            savefile::save_file(&p, ver, &val)?;
            if savefile::load_file::<T, _>(&p, ver)?.to_model() != want {
                bad.push("save_file/load_file".to_string());
            }
            savefile::save_file_compressed(&p, ver, &val)?;
            if savefile::load_file::<T, _>(&p, ver)?.to_model() != want {
                bad.push("save_file_compressed/load_file".to_string());
            }
            let mem = savefile::save_to_mem(ver, &val)?;
            if savefile::load_from_mem::<T>(&mem, ver)?.to_model() != want {
                bad.push("save_to_mem/load_from_mem".to_string());
            }
            savefile::save_file_noschema(&p, ver, &val)?;
            let on_disk = std::fs::read(&p).map_err(|e| SavefileError::GeneralError { msg: format!("reading the file back: {}", e) })?;
            if savefile::load_file_noschema::<T, _>(&p, ver)?.to_model() != want {
                bad.push("save_file_noschema/load_file_noschema".to_string());
            }
            Ok((bad, on_disk))
        })
    }
    fn reload(&self, src: &mut TapR, ver: u32) -> Outcome<Vec<u8>> {
        guarded(|| {
            let val: T = load_t(src, ver, Mode::Bare)?;
            let mut sink = Tap::new();
            sink.keep_log = false;
            save_t(&val, ver, Mode::Bare, &mut sink)?;
            Ok(sink.data)
        })
    }
    fn packed(&self, ver: u32) -> bool {
        unsafe { T::repr_c_optimization_safe(ver).is_yes() }
    }
    fn schema(&self, ver: u32) -> Outcome<serde_json::Value> {
        guarded(|| Ok(serde_json::to_value(savefile::get_schema::<T>(ver)).expect("schema to json")))
    }
    fn schema_obj(&self, ver: u32) -> Schema {
        savefile::get_schema::<T>(ver)
    }
    fn size_align(&self) -> (usize, usize) {
        (std::mem::size_of::<T>(), std::mem::align_of::<T>())
    }
    fn type_name(&self) -> &'static str {
        std::any::type_name::<T>()
    }
}
impl<T> IntroOps for OpsFor<T>
where
    T: Model + Introspect + 'static,
{
    fn introspect_counts(&self, v: &MV) -> Outcome<(usize, usize, Option<usize>)> {
        let val = T::from_model(v);
        guarded(|| {
            let len = val.introspect_len();
            let mut n = 0usize;
            while n < 100_000 && val.introspect_child(n).is_some() {
                n += 1;
            }
            let mut extra = None;
            for i in n + 1..n + 4 {
                if val.introspect_child(i).is_some() {
                    extra = Some(i);
                    break;
                }
            }
            Ok((len, n, extra))
        })
    }
    fn with_introspect(&self, v: &MV, f: &mut dyn FnMut(&dyn Introspect)) {
        let val = T::from_model(v);
        f(&val);
    }
}

pub struct Entry {
    /// canonical JSON of the descriptor (sorted keys, no whitespace)
    pub key: String,
    pub rust: &'static str,
    pub ops: Box<dyn Ops>,
    pub intro: Option<Box<dyn IntroOps>>,
    pub layout: LayoutInfo,
}
pub fn entry<T>(key: &str, rust: &'static str, offs: Vec<usize>, fsizes: Vec<usize>) -> Entry
where
    T: Model + Serialize + Deserialize + WithSchema + Packed + Introspect + 'static,
{
    Entry {
        key: key.to_string(),
        rust,
        ops: Box::new(OpsFor::<T>(PhantomData)),
        intro: Some(Box::new(OpsFor::<T>(PhantomData))),
        layout: LayoutInfo { size: std::mem::size_of::<T>(), align: std::mem::align_of::<T>(), offs, fsizes },
    }
}
/// for the few library types that have no Introspect impl (Cell<T>, io::Error)
pub fn entry_ni<T>(key: &str, rust: &'static str, offs: Vec<usize>, fsizes: Vec<usize>) -> Entry
where
    T: Model + Serialize + Deserialize + WithSchema + Packed + 'static,
{
    Entry {
        key: key.to_string(),
        rust,
        ops: Box::new(OpsFor::<T>(PhantomData)),
        intro: None,
        layout: LayoutInfo { size: std::mem::size_of::<T>(), align: std::mem::align_of::<T>(), offs, fsizes },
    }
}

//! Instrumented `Write` / `Read` objects handed to savefile.  They record every
//! primitive I/O call (requested length, result) and execute a fault / chunking
//! plan.  This is the only "hook" the wire, container and stream checks need:
//! `Serializer<W>` / `Deserializer<R>` are generic.
use serde::{Deserialize, Serialize};
use std::io::{self, ErrorKind, Read, Write};

/// What the environment does with one call.
#[derive(Clone, Copy, Debug, PartialEq, Eq, Serialize, Deserialize)]
pub enum Act {
    /// accept / give everything requested
    All,
    /// accept / give exactly one byte
    One,
    /// accept / give half (at least one byte)
    Half,
    /// return ErrorKind::Interrupted (the call is then retried by write_all / read_exact)
    Intr,
    /// hard error of the given kind (index into KINDS)
    Fail(u8),
    /// Ok(0)
    Zero,
}
pub const KINDS: [ErrorKind; 4] =
    [ErrorKind::Other, ErrorKind::BrokenPipe, ErrorKind::WouldBlock, ErrorKind::UnexpectedEof];

#[derive(Clone, Debug, PartialEq, Eq, Serialize, Deserialize)]
pub struct Ev {
    /// "w" write, "r" read, "f" flush
    pub op: char,
    pub req: usize,
    /// Ok(n) => n >= 0 ; Err => -1 - kindindex ; Interrupted => -100
    pub res: i64,
}

#[derive(Default)]
pub struct Plan {
    /// action per call index (calls beyond the plan: All)
    pub acts: Vec<Act>,
    /// hard failure once this many bytes have been transferred (checked before each call)
    pub fail_at_byte: Option<(usize, u8)>,
    /// repeat the last action of `acts` for ever (used for 1-byte chunking)
    pub repeat_last: bool,
    /// the final flush() fails
    pub fail_flush: bool,
}
impl Plan {
    pub fn none() -> Plan {
        Plan::default()
    }
    pub fn every(a: Act) -> Plan {
        Plan { acts: vec![a], fail_at_byte: None, repeat_last: true, fail_flush: false }
    }
    fn act(&self, call: usize) -> Act {
        if call < self.acts.len() {
            self.acts[call]
        } else if self.repeat_last && !self.acts.is_empty() {
            *self.acts.last().unwrap()
        } else {
            Act::All
        }
    }
}

pub const BUDGET: usize = 5_000_000;

pub struct Tap {
    pub data: Vec<u8>,
    pub log: Vec<Ev>,
    pub plan: Plan,
    pub calls: usize,
    pub budget_exceeded: bool,
    pub keep_log: bool,
    /// number of bytes accepted when the first failure (hard error, Ok(0), failed flush) was reported
    pub accepted_at_first_failure: Option<usize>,
}
impl Tap {
    pub fn new() -> Tap {
        Tap::with_plan(Plan::none())
    }
    pub fn with_plan(plan: Plan) -> Tap {
        Tap { data: Vec::new(), log: Vec::new(), plan, calls: 0, budget_exceeded: false, keep_log: true, accepted_at_first_failure: None }
    }
    /// lengths of the successful non-empty write calls
    pub fn write_lens(&self) -> Vec<usize> {
        self.log.iter().filter(|e| e.op == 'w' && e.res > 0).map(|e| e.res as usize).collect()
    }
}
fn decide(plan: &Plan, call: usize, transferred: usize, req: usize) -> Result<usize, io::Error> {
    if let Some((at, kind)) = plan.fail_at_byte {
        if transferred >= at {
            return Err(io::Error::new(KINDS[kind as usize], "injected fault"));
        }
    }
    let mut n = match plan.act(call) {
        Act::All => req,
        Act::One => req.min(1),
        Act::Half => (req / 2).max(1).min(req),
        Act::Intr => return Err(io::Error::new(ErrorKind::Interrupted, "injected interrupt")),
        Act::Fail(k) => return Err(io::Error::new(KINDS[k as usize], "injected fault")),
        Act::Zero => 0,
    };
    if let Some((at, _)) = plan.fail_at_byte {
        n = n.min(at - transferred);
    }
    Ok(n)
}
fn code(r: &Result<usize, io::Error>) -> i64 {
    match r {
        Ok(n) => *n as i64,
        Err(e) if e.kind() == ErrorKind::Interrupted => -100,
        Err(e) => -1 - KINDS.iter().position(|k| *k == e.kind()).unwrap_or(0) as i64,
    }
}
impl Write for Tap {
    fn write(&mut self, buf: &[u8]) -> io::Result<usize> {
        let call = self.calls;
        self.calls += 1;
        if self.calls > BUDGET {
            self.budget_exceeded = true;
            return Err(io::Error::new(ErrorKind::Other, "step budget exceeded (livelock)"));
        }
        let r = decide(&self.plan, call, self.data.len(), buf.len());
        if self.keep_log {
            self.log.push(Ev { op: 'w', req: buf.len(), res: code(&r) });
        }
        let failed = match &r {
            Ok(0) => !buf.is_empty(),
            Ok(_) => false,
            Err(e) => e.kind() != ErrorKind::Interrupted,
        };
        if failed && self.accepted_at_first_failure.is_none() {
            self.accepted_at_first_failure = Some(self.data.len());
        }
        let n = r?;
        self.data.extend_from_slice(&buf[..n]);
        Ok(n)
    }
    fn flush(&mut self) -> io::Result<()> {
        if self.keep_log {
            self.log.push(Ev { op: 'f', req: 0, res: 0 });
        }
        if self.plan.fail_flush {
            if self.accepted_at_first_failure.is_none() {
                self.accepted_at_first_failure = Some(self.data.len());
            }
            if self.keep_log {
                self.log.last_mut().unwrap().res = -1;
            }
            return Err(io::Error::new(ErrorKind::Other, "injected flush fault"));
        }
        if let Some((at, kind)) = self.plan.fail_at_byte {
            if self.data.len() >= at {
                if self.accepted_at_first_failure.is_none() {
                    self.accepted_at_first_failure = Some(self.data.len());
                }
                if self.keep_log {
                    self.log.last_mut().unwrap().res = -1 - kind as i64;
                }
                return Err(io::Error::new(KINDS[kind as usize], "injected fault"));
            }
        }
        Ok(())
    }
}

pub struct TapR<'a> {
    pub data: &'a [u8],
    pub pos: usize,
    pub log: Vec<Ev>,
    pub plan: Plan,
    pub calls: usize,
    pub budget_exceeded: bool,
    pub keep_log: bool,
}
impl<'a> TapR<'a> {
    pub fn new(data: &'a [u8]) -> TapR<'a> {
        TapR::with_plan(data, Plan::none())
    }
    pub fn with_plan(data: &'a [u8], plan: Plan) -> TapR<'a> {
        TapR { data, pos: 0, log: Vec::new(), plan, calls: 0, budget_exceeded: false, keep_log: true }
    }
    /// requested lengths of read calls (what the deserializer asked for)
    pub fn read_reqs(&self) -> Vec<usize> {
        self.log.iter().filter(|e| e.op == 'r' && e.req > 0).map(|e| e.req).collect()
    }
}
impl Read for TapR<'_> {
    fn read(&mut self, buf: &mut [u8]) -> io::Result<usize> {
        let call = self.calls;
        self.calls += 1;
        if self.calls > BUDGET {
            self.budget_exceeded = true;
            return Err(io::Error::new(ErrorKind::Other, "step budget exceeded (livelock)"));
        }
        let avail = self.data.len() - self.pos;
        let r = decide(&self.plan, call, self.pos, buf.len().min(avail));
        if self.keep_log {
            self.log.push(Ev { op: 'r', req: buf.len(), res: code(&r) });
        }
        let n = r?;
        buf[..n].copy_from_slice(&self.data[self.pos..self.pos + n]);
        self.pos += n;
        Ok(n)
    }
}

//! Replay of Introspect.tla behaviours against the real `Introspector` (C17, navigation clause).
//!
//!   intro replay <records.ndjson> <out.ndjson>
//!
//! record: {tree, limit, hist:[cmd..], err, frames, nframes, total, ti:[{k,depth,pos}..]}
//! The abstract tree is built as a real `Node` implementing savefile::Introspect; the command history is
//! applied to a fresh Introspector; after the LAST command everything observable is compared.
use savefile::{
    IntrospectItem, IntrospectedElementKey, IntrospectionError, Introspector, IntrospectorNavCommand, Introspect,
};
use serde_json::{json, Value};
use std::io::{BufRead, BufWriter, Write};
use std::panic::{catch_unwind, AssertUnwindSafe};

struct Node {
    key: String,
    kids: Vec<Node>,
}
fn build(v: &Value) -> Node {
    Node {
        key: v["key"].as_str().unwrap().to_string(),
        kids: v["kids"].as_array().map(|a| a.iter().map(build).collect()).unwrap_or_default(),
    }
}
struct Item<'a>(&'a Node);
impl<'a> IntrospectItem<'a> for Item<'a> {
    fn key(&self) -> &str {
        &self.0.key
    }
    fn val(&self) -> &dyn Introspect {
        self.0
    }
}
impl Introspect for Node {
    fn introspect_value(&self) -> String {
        format!("node {}", self.key)
    }
    fn introspect_child<'a>(&'a self, index: usize) -> Option<Box<dyn IntrospectItem<'a> + 'a>> {
        self.kids.get(index).map(|k| Box::new(Item(k)) as Box<dyn IntrospectItem<'a> + 'a>)
    }
    fn introspect_len(&self) -> usize {
        self.kids.len()
    }
}

/// a type that relies on the DEFAULT `introspect_len` of the trait
struct Plain(usize);
struct PlainItem(String);
impl<'a> IntrospectItem<'a> for PlainItem {
    fn key(&self) -> &str {
        &self.0
    }
    fn val(&self) -> &dyn Introspect {
        &LEAF
    }
}
static LEAF: Plain = Plain(0);
impl Introspect for Plain {
    fn introspect_value(&self) -> String {
        "plain".into()
    }
    fn introspect_child<'a>(&'a self, index: usize) -> Option<Box<dyn IntrospectItem<'a> + 'a>> {
        if index < self.0 {
            Some(Box::new(PlainItem(index.to_string())))
        } else {
            None
        }
    }
}

fn command(c: &Value) -> IntrospectorNavCommand {
    match c["k"].as_str().unwrap() {
        "expand" => IntrospectorNavCommand::ExpandElement(IntrospectedElementKey {
            depth: c["depth"].as_u64().unwrap() as usize,
            key: c["key"].as_str().unwrap().to_string(),
            key_disambiguator: c["dis"].as_u64().unwrap() as usize,
        }),
        "nth" => IntrospectorNavCommand::SelectNth {
            select_depth: c["depth"].as_u64().unwrap() as usize,
            select_index: c["index"].as_u64().unwrap() as usize,
        },
        "up" => IntrospectorNavCommand::Up,
        _ => IntrospectorNavCommand::Nothing,
    }
}
fn err_name(e: IntrospectionError) -> &'static str {
    match e {
        IntrospectionError::BadDepth => "BadDepth",
        IntrospectionError::UnknownKey => "UnknownKey",
        IntrospectionError::NoChildren => "NoChildren",
        IntrospectionError::IndexOutOfRange => "IndexOutOfRange",
        IntrospectionError::AlreadyAtTop => "AlreadyAtTop",
    }
}

fn replay(rec: &Value) -> Vec<Value> {
    let mut fails = vec![];
    let tree = build(&rec["tree"]);
    let limit = rec["limit"].as_u64().unwrap();
    let mut insp = if limit >= 1_000_000 { Introspector::new() } else { Introspector::new_with(limit as usize) };
    let hist = rec["hist"].as_array().unwrap();
    let mut last = None;
    for (n, c) in hist.iter().enumerate() {
        let cmd = command(c);
        let r = catch_unwind(AssertUnwindSafe(|| insp.do_introspect(&tree, cmd)));
        match r {
            Err(_) => {
                fails.push(json!({"check": "c17.nav.panic", "detail": format!("do_introspect panicked at command #{}", n)}));
                return fails;
            }
            Ok(x) => last = Some(x),
        }
    }
    let want_err = rec["err"].as_str().unwrap();
    match last.unwrap() {
        Err(e) => {
            if err_name(e) != want_err {
                fails.push(json!({"check": "c17.nav.outcome", "detail": format!("real Err({}) spec '{}'", err_name(e), want_err)}));
            }
        }
        Ok(res) => {
            if want_err != "" {
                fails.push(json!({"check": "c17.nav.outcome", "detail": format!("real Ok spec Err({})", want_err)}));
                return fails;
            }
            // frames
            let wf = rec["frames"].as_array().unwrap();
            if wf.len() != res.frames.len() {
                fails.push(json!({"check": "c17.nav.frames", "detail": format!("frame count real {} spec {}", res.frames.len(), wf.len())}));
            } else {
                for (d, (rf, sf)) in res.frames.iter().zip(wf.iter()).enumerate() {
                    let sel = rf.selected.map(|x| x as i64).unwrap_or(-1);
                    let real: Vec<Value> = rf
                        .keyvals
                        .iter()
                        .map(|kv| {
                            json!({"key": kv.key.key, "dis": kv.key.key_disambiguator, "depth": kv.key.depth,
                                   "has": kv.has_children, "sel": kv.selected})
                        })
                        .collect();
                    if sel != sf["selected"].as_i64().unwrap()
                        || rf.limit_reached != sf["lim"].as_bool().unwrap()
                        || Value::Array(real.clone()) != sf["kvs"]
                    {
                        fails.push(json!({"check": "c17.nav.frames",
                            "detail": format!("frame {} real sel={} lim={} kvs={} spec={}", d, sel, rf.limit_reached, Value::Array(real), sf)}));
                    }
                }
            }
            let total = rec["total"].as_u64().unwrap() as usize;
            if res.total_len() != total {
                fails.push(json!({"check": "c17.nav.total_len", "detail": format!("real {} spec {}", res.total_len(), total)}));
            }
            for (i, want) in rec["ti"].as_array().unwrap().iter().enumerate() {
                let got = catch_unwind(AssertUnwindSafe(|| res.total_index(i)));
                match got {
                    Err(_) => fails.push(json!({"check": "c17.nav.total_index.panic", "detail": format!("total_index({}) panicked", i)})),
                    Ok(g) => {
                        let wk = want["k"].as_str().unwrap();
                        match (g, wk) {
                            (None, "none") => {}
                            (Some(el), "some") => {
                                let d = want["depth"].as_u64().unwrap() as usize;
                                let p = want["pos"].as_u64().unwrap() as usize;
                                let exp = &res.frames[d].keyvals[p];
                                if el != *exp {
                                    fails.push(json!({"check": "c17.nav.total_index", "detail": format!("total_index({}) = {:?}, spec frame {} pos {}", i, el, d, p)}));
                                }
                            }
                            (g, wk) => fails.push(json!({"check": "c17.nav.total_index", "detail": format!("total_index({}) is_some={} spec {}", i, g.is_some(), wk)})),
                        }
                        // the property itself, independent of the specification's prediction
                        let real_some = res.total_index(i).is_some();
                        if real_some != (i < res.total_len()) {
                            fails.push(json!({"check": "c17.nav.dense", "detail": format!("total_index({}).is_some()={} total_len={}", i, real_some, res.total_len())}));
                        }
                    }
                }
            }
        }
    }
    let nframes = rec["nframes"].as_u64().unwrap() as usize;
    if insp.num_frames() != nframes {
        fails.push(json!({"check": "c17.nav.num_frames", "detail": format!("real {} spec {}", insp.num_frames(), nframes)}));
    }
    fails
}

fn main() {
    let args: Vec<String> = std::env::args().collect();
    if args.len() >= 3 && args[1] == "lens" {
        // the default introspect_len, and arrays, at sizes around powers of two and the 10000 probe limit
        let mut out = BufWriter::new(std::fs::File::create(&args[2]).expect("out"));
        for k in [0usize, 1, 2, 3, 255, 256, 257, 1000, 4095, 4096, 4097, 8191, 8192, 8193, 9000, 9999, 10000] {
            let n = Plain(k);
            let len = n.introspect_len();
            let mut fails = vec![];
            if len != k {
                fails.push(json!({"check": "c17.len.default", "detail": format!("default introspect_len() = {} for a value with {} children", len, k)}));
            }
            writeln!(out, "{}", json!({"k": k, "fails": fails})).unwrap();
        }
        fn arr<const N: usize>(out: &mut impl Write) {
            let a = [0u8; N];
            let len = a.introspect_len();
            let mut n = 0;
            while a.introspect_child(n).is_some() {
                n += 1;
            }
            let mut fails = vec![];
            if len != n {
                fails.push(json!({"check": "c17.len.array", "detail": format!("[u8; {}]: introspect_len() = {} but {} children can be fetched", N, len, n)}));
            }
            writeln!(out, "{}", json!({"k": N, "fails": fails})).unwrap();
        }
        arr::<0>(&mut out);
        arr::<1>(&mut out);
        arr::<256>(&mut out);
        arr::<8192>(&mut out);
        arr::<9000>(&mut out);
        arr::<10000>(&mut out);
        arr::<10001>(&mut out);
        arr::<20000>(&mut out);
        // values in special states: locked / poisoned / borrowed containers report as many children as can be fetched
        fn consistent(name: &str, v: &dyn Introspect, out: &mut impl Write) {
            out.flush().unwrap();
            if std::env::var("LENS_DEBUG").is_ok() {
                eprintln!("lens: {}", name);
            }
            let r = catch_unwind(AssertUnwindSafe(|| {
                let len = v.introspect_len();
                let mut n = 0;
                while n < 100 && v.introspect_child(n).is_some() {
                    n += 1;
                }
                (len, n)
            }));
            let mut fails = vec![];
            match r {
                Ok((len, n)) if len == n => {}
                Ok((len, n)) => fails.push(json!({"check": "c17.len.state", "detail": format!("{}: introspect_len() = {} but {} children can be fetched", name, len, n)})),
                Err(_) => fails.push(json!({"check": "c17.len.state.panic", "detail": format!("{}: introspection panicked", name)})),
            }
            writeln!(out, "{}", json!({"k": 0, "fails": fails})).unwrap();
        }
        std::panic::set_hook(Box::new(|_| {}));
        let healthy = std::sync::Mutex::new(5u32);
        consistent("std::sync::Mutex (healthy)", &healthy, &mut out);
        let poisoned = std::sync::Arc::new(std::sync::Mutex::new(5u32));
        {
            let p2 = poisoned.clone();
            let _ = std::thread::spawn(move || {
                let _g = p2.lock().unwrap();
                panic!("poison the mutex");
            })
            .join();
        }
        consistent("std::sync::Mutex (poisoned)", &*poisoned, &mut out);
        consistent("Arc<std::sync::Mutex> (poisoned)", &poisoned, &mut out);
        let cell = std::cell::RefCell::new(3u16);
        consistent("RefCell (free)", &cell, &mut out);
        let pl = parking_lot::Mutex::new(1u8);
        consistent("parking_lot::Mutex (free)", &pl, &mut out);
        let rw = parking_lot::RwLock::new(1u8);
        consistent("parking_lot::RwLock (free)", &rw, &mut out);
        return;
    }
    if args.len() < 4 || args[1] != "replay" {
        eprintln!("usage: intro replay <records> <out>");
        std::process::exit(2);
    }
    std::panic::set_hook(Box::new(|_| {}));
    let input = std::fs::File::open(&args[2]).expect("records");
    let mut out = BufWriter::new(std::fs::File::create(&args[3]).expect("out"));
    for (i, line) in std::io::BufReader::new(input).lines().enumerate() {
        let line = line.unwrap();
        if line.trim().is_empty() {
            continue;
        }
        let rec: Value = serde_json::from_str(&line).expect("json");
        let fails = replay(&rec);
        writeln!(out, "{}", json!({"i": i, "fails": fails})).unwrap();
    }
}

use plugin_iface::{PlugCb, PlugIface};
use savefile_derive::savefile_abi_export;

#[derive(Default)]
pub struct PlugImpl;
impl PlugIface for PlugImpl {
    fn twice(&self, x: u32) -> u32 {
        2 * x
    }
    fn with_cb(&self, cb: Box<dyn PlugCb>) -> u32 {
        cb.get() + 1
    }
}
savefile_abi_export!(PlugImpl, PlugIface);

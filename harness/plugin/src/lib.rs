use plugin_iface::*;
use savefile_derive::savefile_abi_export;

#[derive(Default)]
pub struct PlugImpl;
impl PlugIface for PlugImpl {
    fn twice(&self, x: u32) -> u32 {
        2 * x
    }
    fn with_cb(&self, cb: Box<dyn PlugCb>) -> u32 {
        cb.get() + 1
    }
}
savefile_abi_export!(PlugImpl, PlugIface);

#[derive(Default)]
pub struct LayoutImpl;
impl LayoutIface for LayoutImpl {
    fn rust_rec(&self, r: &RustRec) -> u64 {
        d_rust(r)
    }
    fn c_rec(&self, r: &CRec) -> u64 {
        d_c(r)
    }
    fn c_packed(&self, r: &CPacked) -> u64 {
        d_packed(r)
    }
    fn renum(&self, e: &REnum) -> u64 {
        d_enum(e)
    }
    fn tuple(&self, t: &(u8, u32, u16)) -> u64 {
        d_tuple(t)
    }
    fn vec_rust(&self, v: &Vec<RustRec>) -> u64 {
        v.iter().enumerate().map(|(i, r)| (i as u64 + 1) * d_rust(r)).sum()
    }
    fn slice_rust(&self, v: &[RustRec]) -> u64 {
        v.iter().enumerate().map(|(i, r)| (i as u64 + 1) * d_rust(r)).sum()
    }
    fn string(&self, s: &String) -> u64 {
        s.bytes().enumerate().map(|(i, b)| (i as u64 + 1) * b as u64).sum()
    }
    fn echo(&self, r: &RustRec) -> RustRec {
        r.clone()
    }
    fn layouts(&self) -> Vec<u64> {
        layout_facts()
    }
}
savefile_abi_export!(LayoutImpl, LayoutIface);

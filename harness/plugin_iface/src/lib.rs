//! Interface shared by the harness and the separately linked plugin (cdylib) used for load_shared_library.
use savefile_derive::savefile_abi_exportable;

#[savefile_abi_exportable(version = 0)]
pub trait PlugCb {
    fn get(&self) -> u32;
}
#[savefile_abi_exportable(version = 0)]
pub trait PlugIface {
    fn twice(&self, x: u32) -> u32;
    fn with_cb(&self, cb: Box<dyn PlugCb>) -> u32;
}

//! Interface shared by the harness and the separately linked plugin (cdylib) used for load_shared_library.
use savefile_derive::{savefile_abi_exportable, Savefile};

#[savefile_abi_exportable(version = 0)]
pub trait PlugCb {
    fn get(&self) -> u32;
}
#[savefile_abi_exportable(version = 0)]
pub trait PlugIface {
    fn twice(&self, x: u32) -> u32;
    fn with_cb(&self, cb: Box<dyn PlugCb>) -> u32;
}


// ---- C11: by-reference arguments between SEPARATELY COMPILED peers ----------------------------------------------------
// The plugin is also built by another compiler (nightly) with -Zrandomize-layout: the repr(Rust) types below then have
// a different memory layout on the two sides.

#[derive(Savefile, Clone, Debug, PartialEq, Default)]
pub struct RustRec {
    pub a: u8,
    pub b: u32,
    pub c: u16,
    pub d: u64,
    pub e: u8,
}
#[derive(Savefile, Clone, Debug, PartialEq, Default)]
#[repr(C)]
pub struct CRec {
    pub a: u8,
    pub b: u32,
    pub c: u16,
}
#[derive(Savefile, Clone, Debug, PartialEq, Default)]
#[repr(C)]
pub struct CPacked {
    pub a: u32,
    pub b: u16,
    pub c: u16,
}
#[derive(Savefile, Clone, Debug, PartialEq)]
#[repr(u8)]
pub enum REnum {
    A(u8),
    B(u32, u16),
    C,
}
pub fn d_rust(r: &RustRec) -> u64 {
    r.a as u64 + 3 * r.b as u64 + 5 * r.c as u64 + 7 * (r.d % 1_000_003) + 11 * r.e as u64
}
pub fn d_c(r: &CRec) -> u64 {
    r.a as u64 + 3 * r.b as u64 + 5 * r.c as u64
}
pub fn d_packed(r: &CPacked) -> u64 {
    r.a as u64 + 3 * r.b as u64 + 5 * r.c as u64
}
pub fn d_enum(e: &REnum) -> u64 {
    match e {
        REnum::A(x) => 1000 + *x as u64,
        REnum::B(x, y) => 2000 + *x as u64 + 3 * *y as u64,
        REnum::C => 3000,
    }
}
pub fn d_tuple(t: &(u8, u32, u16)) -> u64 {
    t.0 as u64 + 3 * t.1 as u64 + 5 * t.2 as u64
}
/// [size, align, offsets of a, b, c, d, e] of RustRec, then [size, align, offsets of .0 .1 .2] of (u8, u32, u16)
pub fn layout_facts() -> Vec<u64> {
    use std::mem::{align_of, offset_of, size_of};
    vec![
        size_of::<RustRec>() as u64,
        align_of::<RustRec>() as u64,
        offset_of!(RustRec, a) as u64,
        offset_of!(RustRec, b) as u64,
        offset_of!(RustRec, c) as u64,
        offset_of!(RustRec, d) as u64,
        offset_of!(RustRec, e) as u64,
        size_of::<(u8, u32, u16)>() as u64,
        align_of::<(u8, u32, u16)>() as u64,
        offset_of!((u8, u32, u16), 0) as u64,
        offset_of!((u8, u32, u16), 1) as u64,
        offset_of!((u8, u32, u16), 2) as u64,
    ]
}

#[savefile_abi_exportable(version = 0)]
pub trait LayoutIface {
    fn rust_rec(&self, r: &RustRec) -> u64;
    fn c_rec(&self, r: &CRec) -> u64;
    fn c_packed(&self, r: &CPacked) -> u64;
    fn renum(&self, e: &REnum) -> u64;
    fn tuple(&self, t: &(u8, u32, u16)) -> u64;
    fn vec_rust(&self, v: &Vec<RustRec>) -> u64;
    fn slice_rust(&self, v: &[RustRec]) -> u64;
    fn string(&self, s: &String) -> u64;
    fn echo(&self, r: &RustRec) -> RustRec;
    /// the layout facts of the IMPLEMENTATION's build
    fn layouts(&self) -> Vec<u64>;
}

//! Replay of SchemaMC.tla against the real Schema (de)serializers, diff_schema and layout_compatible (C13, C11).
//!
//!   schema replay <records.ndjson> <out.ndjson>
//!
//! record: {s, e1, e2, e0, strip, pairs:[{m, kind, diff, rdiff, lc, sl}]}
//! Real Schema values are built from the uniform schema nodes through the public constructors.
use savefile::prelude::*;
use savefile::{
    diff_schema, new_schema_deserializer, AbiMethod, AbiMethodArgument, AbiMethodInfo, AbiTraitDefinition, Field, ReceiverType, SchemaArray,
    SchemaEnum, SchemaPrimitive, SchemaStruct, Variant, VecOrStringLayout,
};
use serde_json::{json, Value};
use std::io::{BufRead, BufWriter, Write};
use std::panic::{catch_unwind, AssertUnwindSafe};

fn lay(v: &Value) -> VecOrStringLayout {
    match v.as_str().unwrap_or("") {
        "DataCapacityLength" => VecOrStringLayout::DataCapacityLength,
        "DataLengthCapacity" => VecOrStringLayout::DataLengthCapacity,
        "CapacityDataLength" => VecOrStringLayout::CapacityDataLength,
        "LengthDataCapacity" => VecOrStringLayout::LengthDataCapacity,
        "CapacityLengthData" => VecOrStringLayout::CapacityLengthData,
        "LengthCapacityData" => VecOrStringLayout::LengthCapacityData,
        "LengthData" => VecOrStringLayout::LengthData,
        "DataLength" => VecOrStringLayout::DataLength,
        _ => VecOrStringLayout::Unknown,
    }
}
fn optu(v: &Value) -> Option<usize> {
    let x = v.as_i64().unwrap_or(-1);
    if x < 0 {
        None
    } else {
        Some(x as usize)
    }
}
fn fields(ts: &Value) -> Vec<Field> {
    ts.as_array()
        .unwrap()
        .iter()
        .map(|f| unsafe { Field::unsafe_new(f["nm"].as_str().unwrap_or("").to_string(), Box::new(build(f)), optu(&f["off"])) })
        .collect()
}
fn traitdef(d: &Value) -> AbiTraitDefinition {
    let fl = d["n"].as_u64().unwrap();
    AbiTraitDefinition {
        name: d["s"].as_str().unwrap().to_string(),
        methods: d["ts"]
            .as_array()
            .unwrap()
            .iter()
            .map(|m| {
                let code = m["n"].as_u64().unwrap();
                let ts = m["ts"].as_array().unwrap();
                AbiMethod {
                    name: m["s"].as_str().unwrap().to_string(),
                    info: AbiMethodInfo {
                        return_value: build(&ts[0]),
                        receiver: match code % 4 {
                            0 => ReceiverType::Shared,
                            1 => ReceiverType::Mut,
                            _ => ReceiverType::PinMut,
                        },
                        arguments: ts[1..].iter().map(|a| AbiMethodArgument { schema: build(a) }).collect(),
                        async_trait_heuristic: code >= 4,
                    },
                }
            })
            .collect(),
        sync: fl % 2 == 1,
        send: fl >= 2,
    }
}
pub fn build(n: &Value) -> Schema {
    let k = n["k"].as_str().unwrap();
    let s = n["s"].as_str().unwrap_or("");
    let kid = |i: usize| Box::new(build(&n["ts"][i]));
    match k {
        "prim" => Schema::Primitive(match s {
            "i8" => SchemaPrimitive::schema_i8,
            "u8" => SchemaPrimitive::schema_u8,
            "i16" => SchemaPrimitive::schema_i16,
            "u16" => SchemaPrimitive::schema_u16,
            "i32" => SchemaPrimitive::schema_i32,
            "u32" => SchemaPrimitive::schema_u32,
            "i64" => SchemaPrimitive::schema_i64,
            "u64" => SchemaPrimitive::schema_u64,
            "f32" => SchemaPrimitive::schema_f32,
            "f64" => SchemaPrimitive::schema_f64,
            "bool" => SchemaPrimitive::schema_bool,
            "canary1" => SchemaPrimitive::schema_canary1,
            "i128" => SchemaPrimitive::schema_i128,
            "u128" => SchemaPrimitive::schema_u128,
            "char" => SchemaPrimitive::schema_char,
            "string" => SchemaPrimitive::schema_string(lay(&n["lay"])),
            other => panic!("unknown primitive {}", other),
        }),
        "vector" => Schema::Vector(kid(0), lay(&n["lay"])),
        "array" => Schema::Array(SchemaArray { item_type: kid(0), count: n["n"].as_u64().unwrap() as usize }),
        "option" => Schema::SchemaOption(kid(0)),
        "struct" => Schema::Struct(SchemaStruct::new_unsafe(s.to_string(), fields(&n["ts"]), optu(&n["sz"]), optu(&n["al"]))),
        "enum" => {
            let vars = n["ts"]
                .as_array()
                .unwrap()
                .iter()
                .map(|v| Variant { name: v["s"].as_str().unwrap().to_string(), discriminant: v["n"].as_u64().unwrap() as u8, fields: fields(&v["ts"]) })
                .collect();
            Schema::Enum(SchemaEnum::new_unsafe(
                s.to_string(),
                vars,
                n["n"].as_u64().unwrap() as u8,
                n["er"].as_bool().unwrap(),
                optu(&n["sz"]),
                optu(&n["al"]),
            ))
        }
        "zero" => Schema::ZeroSize,
        "undefined" => Schema::Undefined,
        "custom" => Schema::Custom(s.to_string()),
        "boxed" => Schema::Boxed(kid(0)),
        "slice" => Schema::Slice(kid(0)),
        "str" => Schema::Str,
        "ref" => Schema::Reference(kid(0)),
        "recursion" => Schema::Recursion(n["n"].as_u64().unwrap() as usize),
        "ioerror" => Schema::StdIoError,
        "utc" => Schema::UtcTimestamp,
        "uninit" => Schema::UninitSlice,
        "trait" => Schema::Trait(n["n"].as_u64().unwrap() == 1, traitdef(&n["ts"][0])),
        "fnclosure" => Schema::FnClosure(n["n"].as_u64().unwrap() == 1, traitdef(&n["ts"][0])),
        "future" => {
            let m = n["n"].as_u64().unwrap();
            Schema::Future(traitdef(&n["ts"][0]), m & 1 != 0, m & 2 != 0, m & 4 != 0)
        }
        other => panic!("unknown schema kind {}", other),
    }
}
fn bytes_of(v: &Value) -> Vec<u8> {
    v.as_array().map(|a| a.iter().map(|x| x.as_u64().unwrap() as u8).collect()).unwrap_or_default()
}
fn ser(s: &Schema, fv: u32) -> Result<Vec<u8>, String> {
    let mut out = Vec::new();
    let r = catch_unwind(AssertUnwindSafe(|| {
        let mut ser = Serializer::<Vec<u8>>::new_raw(&mut out, fv);
        s.serialize(&mut ser)
    }));
    match r {
        Ok(Ok(())) => Ok(out),
        Ok(Err(e)) => Err(format!("error {}", e)),
        Err(_) => Err("panic".to_string()),
    }
}
fn de(b: &[u8], fv: u16) -> Result<(Schema, usize), String> {
    let r = catch_unwind(AssertUnwindSafe(|| {
        let mut cur = std::io::Cursor::new(b);
        let mut d = new_schema_deserializer(&mut cur, fv);
        let s = Schema::deserialize(&mut d);
        drop(d);
        s.map(|s| (s, cur.position() as usize))
    }));
    match r {
        Ok(Ok(x)) => Ok(x),
        Ok(Err(e)) => Err(format!("error {}", e)),
        Err(_) => Err("panic".to_string()),
    }
}

fn replay(rec: &Value) -> Vec<Value> {
    let mut fails = vec![];
    let mut fail = |c: &str, d: String| fails.push(json!({"check": c, "detail": d}));
    let s = build(&rec["s"]);
    // ---- persistence at format 1 and 2 (write and read)
    for (fv, key) in [(1u32, "e1"), (2u32, "e2")] {
        let want = bytes_of(&rec[key]);
        match ser(&s, fv) {
            Ok(b) => {
                if b != want {
                    fail(&format!("c13.enc{}", fv), format!("real={:?} spec={:?}", b, want));
                }
                match de(&b, fv as u16) {
                    Ok((back, pos)) => {
                        if back != s || pos != b.len() {
                            let expressible = fv == 1 && back == build(&rec["f1"]) && pos == b.len();
                            fail(&format!("c13.roundtrip{}{}", fv, if expressible { ".not_expressible" } else { "" }),
                                 format!("read back {:?} (consumed {}/{})", back, pos, b.len()));
                        }
                    }
                    Err(e) => fail(&format!("c13.roundtrip{}", fv), e),
                }
            }
            Err(e) => fail(&format!("c13.enc{}", fv), e),
        }
        match de(&want, fv as u16) {
            Ok((back, pos)) => {
                // (the property demands s itself; what format 1 can carry of it is rec.f1 -- the difference is a finding)
                if back != s || pos != want.len() {
                    let expressible = fv == 1 && back == build(&rec["f1"]) && pos == want.len();
                    fail(&format!("c13.dec{}{}", fv, if expressible { ".not_expressible" } else { "" }),
                         format!("spec bytes decode to {:?} (consumed {}/{})", back, pos, want.len()));
                }
            }
            Err(e) => fail(&format!("c13.dec{}", fv), e),
        }
    }
    // ---- format 0 sections (old files): read only
    {
        let want = bytes_of(&rec["e0"]);
        let strip = build(&rec["strip"]);
        match de(&want, 0) {
            Ok((back, pos)) => {
                if back != strip || pos != want.len() {
                    fail("c13.dec0", format!("format-0 bytes decode to {:?}, expected {:?} (consumed {}/{})", back, strip, pos, want.len()));
                }
            }
            Err(e) => fail("c13.dec0", e),
        }
    }
    // ---- comparison and by-reference rule on the exported partners
    for p in rec["pairs"].as_array().unwrap() {
        let m = build(&p["m"]);
        let kind = p["kind"].as_str().unwrap();
        for (a, b, key, dir) in [(&s, &m, "diff", "s,m"), (&m, &s, "rdiff", "m,s")] {
            let real = catch_unwind(AssertUnwindSafe(|| diff_schema(a, b, ".".to_string(), false).is_some()));
            match real {
                Err(_) => fail("c13.diff.panic", format!("diff_schema({}) panicked for {:?}", dir, m)),
                Ok(r) => {
                    let want = p[key].as_bool().unwrap();
                    if r != want {
                        let c = match kind {
                            "self" => "c13.reflexive",
                            "wire" => "c13.complete",
                            _ => "c13.layout_blind",
                        };
                        fail(c, format!("diff_schema({}) reports difference = {}, spec {}; partner ({}) {:?}", dir, r, want, kind, m));
                    }
                }
            }
        }
        let real_lc = catch_unwind(AssertUnwindSafe(|| s.layout_compatible(&m)));
        match real_lc {
            Err(_) => fail("c11.layout.panic", format!("layout_compatible panicked for {:?}", m)),
            Ok(r) => {
                if r && !p["sl"].as_bool().unwrap() {
                    fail("c11.layout.unsound", format!("layout_compatible = true but the layouts are not provably identical; partner ({}) {:?}", kind, m));
                }
                if r != p["lc"].as_bool().unwrap() {
                    fail("c11.layout.conformance", format!("layout_compatible = {} spec transcription {}; partner ({}) {:?}", r, p["lc"], kind, m));
                }
            }
        }
    }
    fails
}

/// C06 on schema sections: decode a (malformed) section with the real reader; the verdict is TLC's (SchemaMutTrace.tla)
fn garbage(rec: &Value) -> Value {
    let inp = bytes_of(&rec["inp"]);
    let run = || -> Value {
        let r = catch_unwind(AssertUnwindSafe(|| {
            let mut cur = std::io::Cursor::new(&inp[..]);
            let mut d = new_schema_deserializer(&mut cur, 2);
            let s = Schema::deserialize(&mut d);
            drop(d);
            s.map(|s| (s, cur.position() as usize))
        }));
        match r {
            Ok(Ok((s, pos))) => match ser(&s, 2) {
                Ok(b) => json!({"real": "ok", "msg": "", "rpos": pos, "reser": b, "oom": false}),
                Err(e) => json!({"real": "panic", "msg": format!("decoded schema cannot be written again: {}", e), "rpos": pos, "reser": [], "oom": false}),
            },
            Ok(Err(e)) => json!({"real": "err", "msg": format!("{}", e), "rpos": 0, "reser": [], "oom": false}),
            Err(p) => {
                let m = p.downcast_ref::<String>().cloned().or_else(|| p.downcast_ref::<&str>().map(|x| x.to_string())).unwrap_or_default();
                let oom = m.contains("allocat") || m.contains("capacity overflow");
                json!({"real": "panic", "msg": m, "rpos": 0, "reser": [], "oom": oom})
            }
        }
    };
    // sections the format rejects may declare absurd lengths: a forked child turns an allocation abort into an observation
    if rec["ok"].as_bool().unwrap_or(false) {
        run()
    } else {
        vcommon::in_child(run)
    }
}

fn main() {
    let args: Vec<String> = std::env::args().collect();
    if args.len() >= 4 && args[1] == "garbage" {
        unsafe {
            let mapped = std::fs::read_to_string("/proc/self/statm")
                .ok()
                .and_then(|s| s.split_whitespace().next().and_then(|p| p.parse::<u64>().ok()))
                .map(|pages| pages * 4096)
                .unwrap_or(1 << 30);
            let lim = mapped + (3u64 << 29);
            let lim = libc::rlimit { rlim_cur: lim, rlim_max: lim };
            libc::setrlimit(libc::RLIMIT_AS, &lim);
        }
        std::panic::set_hook(Box::new(|_| {}));
        let input = std::fs::File::open(&args[2]).expect("records");
        let mut out = BufWriter::new(std::fs::File::create(&args[3]).expect("out"));
        for (i, line) in std::io::BufReader::new(input).lines().enumerate() {
            let line = line.unwrap();
            if line.trim().is_empty() {
                continue;
            }
            let rec: Value = serde_json::from_str(&line).expect("json");
            writeln!(out, "{}", json!({"i": i, "obs": garbage(&rec)})).unwrap();
        }
        return;
    }
    if args.len() < 4 || args[1] != "replay" {
        eprintln!("usage: schema replay <records> <out>");
        std::process::exit(2);
    }
    std::panic::set_hook(Box::new(|_| {}));
    let input = std::fs::File::open(&args[2]).expect("records");
    let mut out = BufWriter::new(std::fs::File::create(&args[3]).expect("out"));
    for (i, line) in std::io::BufReader::new(input).lines().enumerate() {
        let line = line.unwrap();
        if line.trim().is_empty() {
            continue;
        }
        let rec: Value = serde_json::from_str(&line).expect("json");
        let fails = match catch_unwind(AssertUnwindSafe(|| replay(&rec))) {
            Ok(f) => f,
            Err(_) => vec![json!({"check": "tool.replay_panicked", "detail": "harness panic"})],
        };
        writeln!(out, "{}", json!({"i": i, "fails": fails})).unwrap();
    }
}

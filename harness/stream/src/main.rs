//! C08 / C14 / C07(multi-chunk): fault plans of Stream.tla replayed on real saves and loads, recording the
//! I/O event trace for validation by StreamTrace.tla; tampering and truncation of real encrypted files.
//!
//!   stream plans   <plans.ndjson> <out.ndjson>     one observation per (plan, subject, container)
//!   stream offsets <out.ndjson>                    every byte offset x error kind as failure point
//!   stream tamper  <tier> <out.ndjson>             C14: flips / truncations / wrong keys on real encrypted files
use savefile::CryptoReader;
use savefile_derive::Savefile;
use serde_json::{json, Value};
use std::io::{BufRead, BufWriter, Read, Write};
use std::panic::{catch_unwind, AssertUnwindSafe};
use vcommon::*;

#[derive(Savefile, Debug, PartialEq, Clone)]
struct Rec {
    a: u8,
    name: String,
    n: u32,
    tags: Vec<u16>,
    o: Option<u64>,
    pairs: Vec<(String, bool)>,
}
fn rec() -> Rec {
    Rec { a: 7, name: "héllo wörld".into(), n: 0xDEADBEEF, tags: vec![1, 2, 3, 500, 65535], o: Some(u64::MAX - 1),
          pairs: vec![("x".into(), true), ("".into(), false)] }
}
#[derive(Debug, PartialEq, Clone)]
enum Subj {
    R(Rec),
    V(Vec<u32>),
    B(Vec<u8>),
}
fn subjects(big: bool) -> Vec<(&'static str, Subj)> {
    let mut v = vec![("rec", Subj::R(rec())), ("vecu32", Subj::V((0..40u32).map(|x| x.wrapping_mul(2654435761)).collect()))];
    if big {
        v.push(("big", Subj::B((0..250_001usize).map(|i| (i * 31 % 251) as u8).collect())));
    }
    v
}
const MODES: [Mode; 5] = [Mode::Bare, Mode::Plain, Mode::NoSchema, Mode::Bz, Mode::Crypto];

fn save(s: &Subj, mode: Mode, sink: &mut Tap) -> Outcome<()> {
    guarded(|| match s {
        Subj::R(x) => save_t(x, 0, mode, sink),
        Subj::V(x) => save_t(x, 0, mode, sink),
        Subj::B(x) => save_t(x, 0, mode, sink),
    })
}
fn load(s: &Subj, mode: Mode, src: &mut TapR) -> Outcome<bool> {
    guarded(|| {
        Ok(match s {
            Subj::R(x) => load_t::<Rec>(src, 0, mode)? == *x,
            Subj::V(x) => load_t::<Vec<u32>>(src, 0, mode)? == *x,
            Subj::B(x) => load_t::<Vec<u8>>(src, 0, mode)? == *x,
        })
    })
}
fn clean(s: &Subj, mode: Mode) -> Vec<u8> {
    let mut t = Tap::new();
    t.keep_log = false;
    assert!(save(s, mode, &mut t).is_ok(), "fault-free save");
    t.data
}
/// decrypts as much of an (incomplete) encrypted stream as possible
fn decrypt_prefix(data: &[u8]) -> Option<Vec<u8>> {
    if data.len() < 12 {
        return Some(vec![]);
    }
    let mut src: &[u8] = data;
    let mut cr = match CryptoReader::new(&mut src, KEY) {
        Ok(c) => c,
        Err(_) => return None,
    };
    let mut out = Vec::new();
    let mut one = [0u8; 1];
    loop {
        match catch_unwind(AssertUnwindSafe(|| cr.read(&mut one))) {
            Ok(Ok(1)) => out.push(one[0]),
            _ => break,
        }
    }
    Some(out)
}

fn plan_of(v: &Value) -> Plan {
    let mut p = Plan::none();
    for a in v.as_array().unwrap() {
        let k = a["k"].as_u64().unwrap_or(0) as u8;
        match a["a"].as_str().unwrap() {
            "All" => p.acts.push(Act::All),
            "One" => p.acts.push(Act::One),
            "Half" => p.acts.push(Act::Half),
            "Intr" => p.acts.push(Act::Intr),
            "Zero" => p.acts.push(Act::Zero),
            "Fail" => p.acts.push(Act::Fail(k)),
            "FailFlush" => p.fail_flush = true,
            other => panic!("unknown act {}", other),
        }
    }
    p
}
const HEAD: usize = 10;
/// the first HEAD events verbatim; the rest summarised (count, bytes transferred, whether every one of them was a
/// plain success) - fault plans only act on the first few calls
fn events(log: &[Ev], full: Option<&[u8]>, data_before: &mut usize) -> Value {
    let _ = (full, data_before);
    let head: Vec<Value> = log.iter().take(HEAD).map(|e| json!({"op": e.op.to_string(), "req": e.req, "res": e.res})).collect();
    let tail = &log[log.len().min(HEAD)..];
    let bytes: i64 = tail.iter().filter(|e| e.op != 'f' && e.res > 0).map(|e| e.res).sum();
    let clean = tail.iter().all(|e| e.res >= 0 && (e.op == 'f' || e.op == 'r' || e.res as usize == e.req));
    // is everything that was written followed by a successful flush?
    let last_w = log.iter().rposition(|e| e.op == 'w' && e.res > 0);
    let flushed = match last_w {
        None => true,
        Some(i) => log[i + 1..].iter().any(|e| e.op == 'f' && e.res >= 0),
    };
    json!({"head": head, "tail_n": tail.len(), "tail_bytes": bytes, "tail_clean": clean, "flushed": flushed})
}
fn outcome_str<T>(o: &Outcome<T>, budget: bool) -> (String, String) {
    if budget {
        return ("hang".into(), "step budget exceeded".into());
    }
    match o {
        Outcome::Ok(_) => ("ok".into(), "".into()),
        Outcome::Err(c, m) => ("err".into(), format!("{}: {}", c, m)),
        Outcome::Panic(m) => ("panic".into(), m.clone()),
    }
}

fn run_write(name: &str, s: &Subj, mode: Mode, plan: Plan, planv: &Value) -> Value {
    let full = clean(s, mode);
    let plain = clean(s, Mode::Plain);
    let mut sink = Tap::with_plan(plan);
    let r = save(s, mode, &mut sink);
    let (res, msg) = outcome_str(&r, sink.budget_exceeded);
    // everything the writer accepted before the (first) failure is a prefix of the fault-free output
    let before = &sink.data[..sink.accepted_at_first_failure.unwrap_or(sink.data.len())];
    let prefix_ok = if mode == Mode::Crypto {
        match decrypt_prefix(before) {
            Some(p) => plain.starts_with(&p) && before.len() <= full.len(),
            None => false,
        }
    } else {
        full.starts_with(before)
    };
    let mut d = 0usize;
    json!({"dir": "w", "subject": name, "mode": format!("{:?}", mode), "plan": planv, "events": events(&sink.log, Some(&full), &mut d),
           "result": res, "msg": msg, "total": if mode == Mode::Crypto { -1 } else { full.len() as i64 },
           "acc": sink.data.len(), "prefix_ok": prefix_ok, "veq": true})
}
fn run_read(name: &str, s: &Subj, mode: Mode, plan: Plan, planv: &Value) -> Value {
    let full = clean(s, mode);
    let mut src = TapR::with_plan(&full, plan);
    let r = load(s, mode, &mut src);
    let (res, msg) = outcome_str(&r, src.budget_exceeded);
    let veq = matches!(r, Outcome::Ok(true)) || !r.is_ok();
    let mut d = 0usize;
    json!({"dir": "r", "subject": name, "mode": format!("{:?}", mode), "plan": planv, "events": events(&src.log, None, &mut d),
           "result": res, "msg": msg, "total": full.len() as i64, "acc": src.pos, "prefix_ok": true, "veq": veq})
}

fn main() {
    let args: Vec<String> = std::env::args().collect();
    std::panic::set_hook(Box::new(|_| {}));
    match args.get(1).map(|s| s.as_str()).unwrap_or("") {
        "plans" => {
            let input = std::fs::File::open(&args[2]).expect("plans");
            let mut out = BufWriter::new(std::fs::File::create(&args[3]).expect("out"));
            let subs = subjects(false);
            for line in std::io::BufReader::new(input).lines() {
                let line = line.unwrap();
                if line.trim().is_empty() {
                    continue;
                }
                let rec: Value = serde_json::from_str(&line).expect("json");
                let dir = rec["dir"].as_str().unwrap();
                for (name, s) in subs.iter() {
                    for mode in MODES {
                        let plan = plan_of(&rec["plan"]);
                        let o = if dir == "w" { run_write(name, s, mode, plan, &rec["plan"]) } else { run_read(name, s, mode, plan, &rec["plan"]) };
                        writeln!(out, "{}", o).unwrap();
                    }
                }
            }
        }
        "offsets" => {
            // fault enumeration: every byte offset of the real output / input as the failure point, every error kind;
            // plus pure chunking plans (1 byte, half) and interrupts on every call
            let mut out = BufWriter::new(std::fs::File::create(&args[2]).expect("out"));
            let big = args.get(3).map(|s| s == "thorough").unwrap_or(false);
            for (name, s) in subjects(big).iter() {
                for mode in MODES {
                    let full = clean(s, mode);
                    let step = if full.len() > 4000 { 997 } else { 1 };
                    let mut offs: Vec<usize> = (0..=full.len()).step_by(step).collect();
                    if step > 1 {
                        for c in [12usize, 20, 100_020, 100_036, 100_044, 200_052, 200_068, 200_076] {
                            for d in 0..3 {
                                offs.push(c + d);
                                offs.push(c.saturating_sub(d));
                            }
                        }
                        offs.retain(|o| *o <= full.len());
                    }
                    for &at in &offs {
                        for kind in 0..4u8 {
                            if step > 1 && kind > 0 {
                                continue;
                            }
                            let pv = json!([{"a": "FailAt", "k": kind, "at": at}]);
                            let mut p = Plan::none();
                            p.fail_at_byte = Some((at, kind));
                            // (the event list of these runs is summarised: tail_clean = no failure was reported by the environment)
                            let mut o = run_write(name, s, mode, p, &pv);
                            let wfail = o["events"]["head"].as_array().unwrap().iter().any(|e| e["res"].as_i64().unwrap() < 0 && e["res"] != -100)
                                || !o["events"]["tail_clean"].as_bool().unwrap();
                            let fl = o["events"]["flushed"].clone();
                            o["events"] = json!({"head": [], "tail_n": 0, "tail_bytes": 0, "tail_clean": !wfail, "flushed": fl});
                            o["injected"] = json!(at <= full.len());
                            writeln!(out, "{}", o).unwrap();
                            let mut p = Plan::none();
                            p.fail_at_byte = Some((at, kind));
                            let mut o = run_read(name, s, mode, p, &pv);
                            let rfail = o["events"]["head"].as_array().unwrap().iter().any(|e| e["res"].as_i64().unwrap() < 0 && e["res"] != -100)
                                || !o["events"]["tail_clean"].as_bool().unwrap();
                            o["events"] = json!({"head": [], "tail_n": 0, "tail_bytes": 0, "tail_clean": !rfail, "flushed": true});
                            o["injected"] = json!(at < full.len());
                            writeln!(out, "{}", o).unwrap();
                        }
                    }
                    for (label, act) in [("One", Act::One), ("Half", Act::Half)] {
                        if full.len() > 4000 && label == "One" {
                            continue;
                        }
                        let pv = json!([{"a": label, "k": 0, "every": true}]);
                        let mut o = run_write(name, s, mode, Plan::every(act), &pv);
                        o["events"] = json!({"head": [], "tail_n": 0, "tail_bytes": 0, "tail_clean": true, "flushed": true});
                        o["injected"] = json!(false);
                        writeln!(out, "{}", o).unwrap();
                        let mut o = run_read(name, s, mode, Plan::every(act), &pv);
                        o["events"] = json!({"head": [], "tail_n": 0, "tail_bytes": 0, "tail_clean": true, "flushed": true});
                        o["injected"] = json!(false);
                        writeln!(out, "{}", o).unwrap();
                    }
                    // an interrupt before every call (alternating Intr, One / Intr, All)
                    for second in [Act::One, Act::All] {
                        if full.len() > 4000 && second == Act::One {
                            continue;
                        }
                        let mut p = Plan::none();
                        for _ in 0..(full.len() + 64) {
                            p.acts.push(Act::Intr);
                            p.acts.push(second);
                        }
                        let pv = json!([{"a": "IntrEveryOther", "k": 0}]);
                        let mut o = run_write(name, s, mode, p, &pv);
                        o["events"] = json!({"head": [], "tail_n": 0, "tail_bytes": 0, "tail_clean": true, "flushed": true});
                        o["injected"] = json!(false);
                        writeln!(out, "{}", o).unwrap();
                        let mut p = Plan::none();
                        for _ in 0..(full.len() + 64) {
                            p.acts.push(Act::Intr);
                            p.acts.push(second);
                        }
                        let mut o = run_read(name, s, mode, p, &pv);
                        o["events"] = json!({"head": [], "tail_n": 0, "tail_bytes": 0, "tail_clean": true, "flushed": true});
                        o["injected"] = json!(false);
                        writeln!(out, "{}", o).unwrap();
                    }
                }
            }
        }
        "tamper" => {
            // C14 on real encrypted files; also via load_encrypted_file on a temp file
            let thorough = args[2] == "thorough";
            let mut out = BufWriter::new(std::fs::File::create(&args[3]).expect("out"));
            let dir = std::env::temp_dir().join(format!("verif_c14_{}", std::process::id()));
            std::fs::create_dir_all(&dir).unwrap();
            for (name, s) in subjects(true).iter() {
                let file = clean(s, Mode::Crypto);
                let n = file.len();
                // structure of the real file must be the framing of CryptoFrame.tla
                let mut pos = 12usize;
                let mut chunks = vec![];
                while pos + 8 <= n {
                    let l = u64::from_le_bytes(file[pos..pos + 8].try_into().unwrap()) as usize;
                    chunks.push((pos, l));
                    pos += 8 + l;
                }
                writeln!(out, "{}", json!({"kind": "frame", "subject": name, "len": n, "chunks": chunks, "ends_exactly": pos == n})).unwrap();
                let mut positions: Vec<usize> = if n < 4000 { (0..n).collect() } else { vec![] };
                if n >= 4000 {
                    for (p, l) in &chunks {
                        for d in 0..8 {
                            positions.push(p + d);
                        }
                        for d in 0..32 {
                            positions.push(p + 8 + d);
                            positions.push(p + 8 + l - 1 - d);
                        }
                    }
                    for d in 0..12 {
                        positions.push(d);
                    }
                    positions.extend((0..n).step_by(4999));
                }
                positions.sort();
                positions.dedup();
                let repl: Vec<u8> = if thorough && n < 4000 { (1..=255u8).collect() } else { vec![1, 0x80, 0xFF] };
                let try_load = |bytes: &[u8], key_ok: bool| -> (String, String) {
                    let r = guarded(|| {
                        let mut src: &[u8] = bytes;
                        let key = if key_ok { KEY } else { [9u8; 32] };
                        let mut cr = CryptoReader::new(&mut src, key)?;
                        match s {
                            Subj::R(x) => Ok(savefile::load::<Rec>(&mut cr, 0)? == *x),
                            Subj::V(x) => Ok(savefile::load::<Vec<u32>>(&mut cr, 0)? == *x),
                            Subj::B(x) => Ok(savefile::load::<Vec<u8>>(&mut cr, 0)? == *x),
                        }
                    });
                    match r {
                        Outcome::Ok(eq) => (if eq { "ok-same".into() } else { "ok-different".into() }, "".into()),
                        Outcome::Err(c, m) => ("err".into(), format!("{}: {}", c, m)),
                        Outcome::Panic(m) => ("panic".into(), m),
                    }
                };
                let (base, _) = try_load(&file, true);
                writeln!(out, "{}", json!({"kind": "intact", "subject": name, "result": base})).unwrap();
                for &p in &positions {
                    for &x in &repl {
                        let mut f = file.clone();
                        f[p] ^= x;
                        let (r, m) = try_load(&f, true);
                        if r != "err" {
                            writeln!(out, "{}", json!({"kind": "flip", "subject": name, "pos": p, "xor": x, "result": r, "msg": m})).unwrap();
                        }
                    }
                }
                writeln!(out, "{}", json!({"kind": "flips_done", "subject": name, "positions": positions.len(), "values": repl.len()})).unwrap();
                let cuts: Vec<usize> = if n < 4000 { (0..n).collect() } else {
                    let mut c: Vec<usize> = positions.clone();
                    c.extend(chunks.iter().map(|(p, l)| p + 8 + l));
                    c.retain(|x| *x < n);
                    c
                };
                for &k in &cuts {
                    let (r, m) = try_load(&file[..k], true);
                    if r != "err" {
                        writeln!(out, "{}", json!({"kind": "cut", "subject": name, "pos": k, "result": r, "msg": m})).unwrap();
                    }
                }
                writeln!(out, "{}", json!({"kind": "cuts_done", "subject": name, "cuts": cuts.len()})).unwrap();
                let (r, m) = try_load(&file, false);
                if r != "err" {
                    writeln!(out, "{}", json!({"kind": "wrongkey", "subject": name, "result": r, "msg": m})).unwrap();
                }
            }
            // the file helpers with passwords
            let path = dir.join("f.bin");
            let value = rec();
            savefile::save_encrypted_file(&path, 0, &value, "correct horse").expect("save_encrypted_file");
            let good = std::fs::read(&path).unwrap();
            let mut pw: Vec<String> = vec!["".into(), "correct horse ".into(), " correct horse".into(), "correct hors".into(), "Correct horse".into(),
                                          "correct horse\0".into(), "orrect horse".into()];
            for i in 0..(if thorough { 50 } else { 8 }) {
                pw.push(format!("pw{}", i));
            }
            for p in &pw {
                let r = guarded(|| savefile::load_encrypted_file::<Rec, _>(&path, 0, p));
                if !matches!(r, Outcome::Err(..)) {
                    writeln!(out, "{}", json!({"kind": "wrongpassword", "password": p, "result": r.class()})).unwrap();
                }
            }
            writeln!(out, "{}", json!({"kind": "passwords_done", "n": pw.len()})).unwrap();
            let r = guarded(|| savefile::load_encrypted_file::<Rec, _>(&path, 0, "correct horse"));
            writeln!(out, "{}", json!({"kind": "rightpassword", "result": match &r { Outcome::Ok(v) if *v == value => "ok-same", Outcome::Ok(_) => "ok-different", Outcome::Err(..) => "err", Outcome::Panic(_) => "panic" }})).unwrap();
            for k in 0..good.len() {
                std::fs::write(&path, &good[..k]).unwrap();
                let r = guarded(|| savefile::load_encrypted_file::<Rec, _>(&path, 0, "correct horse"));
                if !matches!(r, Outcome::Err(..)) {
                    writeln!(out, "{}", json!({"kind": "filecut", "pos": k, "result": r.class(), "msg": format!("{:?}", r).chars().take(160).collect::<String>()})).unwrap();
                }
            }
            writeln!(out, "{}", json!({"kind": "filecuts_done", "n": good.len()})).unwrap();
            let _ = std::fs::remove_dir_all(&dir);
        }
        _ => {
            eprintln!("usage: stream plans|offsets|tamper ...");
            std::process::exit(2);
        }
    }
}

//! Replay of Wire / WireMC behaviours against the real savefile (spec -> impl), and
//! recording of observations for trace validation (impl -> spec).
//!
//!   wire replay <records.ndjson> <out.ndjson>
//!
//! For every REPLAY record {t, ver, v, bytes, wcalls, reads} the real code is driven and one
//! result line is written: {i, key, fails:[{check, detail}], obs:{...}}.
//! A panic of the code under test is data (an Outcome), never a crash of this binary.
use serde_json::{json, Value};
use std::collections::HashMap;
use std::io::{BufRead, BufWriter, Write};
use vcommon::*;

fn bytes_of(v: &Value) -> Vec<u8> {
    v.as_array().map(|a| a.iter().map(|x| x.as_u64().unwrap() as u8).collect()).unwrap_or_default()
}
fn lens_of(v: &Value) -> Vec<usize> {
    v.as_array().map(|a| a.iter().map(|x| x.as_u64().unwrap() as usize).collect()).unwrap_or_default()
}

struct Ctx {
    fails: Vec<Value>,
}
impl Ctx {
    fn fail(&mut self, check: &str, detail: String) {
        self.fails.push(json!({"check": check, "detail": detail}));
    }
}

fn header(ver: u32, flag: u8) -> Vec<u8> {
    // documented container header: "savefile\0", u16 LE library format version (2), u32 LE data version, flag
    let mut h = b"savefile\0".to_vec();
    h.extend_from_slice(&2u16.to_le_bytes());
    h.extend_from_slice(&ver.to_le_bytes());
    h.push(flag);
    h
}

/// what the documented format says about a container file: header, then (for the compressed container: after
/// bzip2 decompression of everything behind the header) an optional schema section followed by exactly the encoding
fn container_bytes_ok(file: &[u8], ver: u32, mode: Mode, want: &[u8]) -> Result<(), String> {
    use std::io::Read;
    if !matches!(mode, Mode::Plain | Mode::NoSchema | Mode::Bz) {
        return Ok(()); // the encrypted container has its own framing (C14)
    }
    let flag = if mode == Mode::Bz { 1 } else { 0 };
    let h = header(ver, flag);
    if file.len() < h.len() || file[..h.len()] != h[..] {
        return Err(format!("header {:?}", &file[..file.len().min(16)]));
    }
    match mode {
        Mode::Bz => {
            let mut body = Vec::new();
            if let Err(e) = bzip2::read::BzDecoder::new(&file[h.len()..]).read_to_end(&mut body) {
                return Err(format!("body is not one bzip2 stream: {}", e));
            }
            if !body.ends_with(want) {
                return Err(format!("decompressed body tail != spec bytes (tail {:?}, spec {:?})",
                                   &body[body.len().saturating_sub(want.len().min(24))..], &want[..want.len().min(24)]));
            }
        }
        Mode::Plain => {
            if !file.ends_with(want) {
                return Err("file tail != spec bytes".to_string());
            }
        }
        Mode::NoSchema => {
            if file[h.len()..] != want[..] {
                return Err("file != header + spec bytes".to_string());
            }
        }
        _ => {}
    }
    Ok(())
}

fn replay_one(e: &Entry, rec: &Value, modes_all: bool, cx: &mut Ctx) -> Value {
    let ver = rec["ver"].as_u64().unwrap() as u32;
    let mv: MV = serde_json::from_value(rec["v"].clone()).expect("model value");
    let want = bytes_of(&rec["bytes"]);
    let mut obs = json!({});

    // ---- bare: bytes (C02), round trip (C01), consumption, spec bytes readable (C02)
    let mut sink = Tap::new();
    let so = e.ops.save(&mv, ver, Mode::Bare, &mut sink);
    if !so.is_ok() {
        cx.fail("c01.save.bare", format!("{:?}", so));
        return obs;
    }
    obs["wcalls"] = json!(sink.write_lens());
    obs["packed"] = json!(e.ops.packed(ver));
    if sink.data != want {
        cx.fail("c02.bytes", format!("real={:?} spec={:?}", sink.data, want));
    } else {
        // refinement of the writer machine: every real write call is a concatenation of whole primitive writes
        // (a bulk write merges adjacent spec steps, it never splits or straddles one)
        let spec_calls = lens_of(&rec["wcalls"]);
        let mut bounds = std::collections::HashSet::new();
        let mut acc = 0usize;
        bounds.insert(0usize);
        for l in &spec_calls {
            // a block longer than any fixed-width primitive is raw bytes (a string's content): writing it in pieces
            // is chunking, not a different encoding
            if *l > 16 {
                for k in 1..*l {
                    bounds.insert(acc + k);
                }
            }
            acc += l;
            bounds.insert(acc);
        }
        let mut pos = 0usize;
        for l in sink.write_lens() {
            pos += l;
            if !bounds.contains(&pos) {
                cx.fail("c04.calls", format!("real write ends at byte {} inside a primitive of the writer machine; real calls {:?} spec calls {:?}", pos, sink.write_lens(), spec_calls));
                break;
            }
        }
    }
    {
        let mut src = TapR::new(&sink.data);
        let lo = e.ops.load(&mut src, ver, Mode::Bare);
        match &lo {
            Outcome::Ok(back) => {
                if *back != mv {
                    cx.fail("c01.roundtrip.bare", format!("loaded={:?}", back));
                }
                if src.pos != sink.data.len() {
                    cx.fail("c01.consumed.bare", format!("pos={} len={}", src.pos, sink.data.len()));
                }
            }
            other => cx.fail("c01.load.bare", format!("{:?}", other)),
        }
        obs["reads"] = json!(src.read_reqs());
    }
    {
        let mut src = TapR::new(&want);
        match e.ops.load(&mut src, ver, Mode::Bare) {
            Outcome::Ok(back) => {
                if back != mv {
                    cx.fail("c02.specbytes.value", format!("loaded={:?}", back));
                }
                if src.pos != want.len() {
                    cx.fail("c02.specbytes.consumed", format!("pos={} len={}", src.pos, want.len()));
                }
            }
            other => cx.fail("c02.specbytes.load", format!("{:?}", other)),
        }
    }
    // ---- containers
    let modes: &[Mode] =
        if modes_all { &[Mode::Plain, Mode::NoSchema, Mode::Bz, Mode::Crypto] } else { &[Mode::Plain, Mode::NoSchema] };
    for &mode in modes {
        let tag = format!("{:?}", mode).to_lowercase();
        let mut sink = Tap::new();
        sink.keep_log = false;
        let so = e.ops.save(&mv, ver, mode, &mut sink);
        if !so.is_ok() {
            cx.fail(&format!("c01.save.{}", tag), format!("{:?}", so));
            continue;
        }
        let file = sink.data;
        match mode {
            Mode::Plain | Mode::NoSchema => {
                let h = header(ver, 0);
                if file.len() < h.len() || file[..h.len()] != h[..] {
                    cx.fail(&format!("c02.header.{}", tag), format!("{:?}", &file[..file.len().min(16)]));
                }
                if !file.ends_with(&want) {
                    cx.fail(&format!("c02.payload.{}", tag), format!("file tail != spec bytes"));
                }
                if mode == Mode::NoSchema && file.len() != h.len() + want.len() {
                    cx.fail("c02.len.noschema", format!("{} != {}", file.len(), h.len() + want.len()));
                }
            }
            Mode::Bz => {
                let h = header(ver, 1);
                if file.len() < h.len() || file[..h.len()] != h[..] {
                    cx.fail("c02.header.bz", format!("{:?}", &file[..file.len().min(16)]));
                } else if let Err(why) = container_bytes_ok(&file, ver, mode, &want) {
                    cx.fail("c02.payload.bz", why);
                }
            }
            _ => {}
        }
        let mut src = TapR::new(&file);
        src.keep_log = false;
        match e.ops.load(&mut src, ver, mode) {
            Outcome::Ok(back) => {
                if back != mv {
                    cx.fail(&format!("c01.roundtrip.{}", tag), format!("loaded={:?}", back));
                }
                // compressed files may leave bzip2's internal read-ahead unconsumed only if nothing follows;
                // everything else must be consumed exactly
                if mode != Mode::Bz && src.pos != file.len() {
                    cx.fail(&format!("c01.consumed.{}", tag), format!("pos={} len={}", src.pos, file.len()));
                }
            }
            other => cx.fail(&format!("c01.load.{}", tag), format!("{:?}", other)),
        }
    }
    large_collection(e, rec, &mv, &want, ver, cx);
    // the convenience entry points over files on disk and in-memory buffers (every record in which all containers run)
    if modes_all {
        let dir = std::env::temp_dir().join(format!("verif_wire_{}", std::process::id()));
        let _ = std::fs::create_dir_all(&dir);
        match e.ops.helpers(&mv, ver, &dir) {
            Outcome::Ok((bad, on_disk)) => {
                for b in bad {
                    cx.fail("c01.helper.roundtrip", format!("{} does not bring the value back equal", b));
                }
                let mut expect = header(ver, 0);
                expect.extend_from_slice(&want);
                if on_disk != expect {
                    cx.fail("c02.helper.file_bytes", format!("save_file_noschema wrote {} bytes, the documented file has {}", on_disk.len(), expect.len()));
                }
            }
            other => cx.fail("c01.helper.failed", format!("{:?}", other).chars().take(200).collect()),
        }
    }
    obs
}

/// "empty and LARGE collections": a sequence of fixed-width primitives with n >= 1 elements is blown up by repeating
/// its elements cyclically to LARGE elements.  The documented encoding is a homomorphism (8-byte length, then the
/// element encodings in order), so the expected bytes follow from the specification's bytes for the small value.
/// LARGE * width exceeds the 100 000-byte block of the encrypted container for every width >= 2.
const LARGE: usize = 60_000;
fn large_collection(e: &Entry, rec: &Value, mv: &MV, want: &[u8], ver: u32, cx: &mut Ctx) {
    let t = &rec["t"];
    if t["k"] != "vec" || !matches!(t["s"].as_str().unwrap_or(""), "Vec" | "VecDeque" | "BoxSlice" | "ArcSlice") {
        return;
    }
    let et = &t["ts"][0];
    let w = if et["k"] == "p" { prim_width(et["s"].as_str().unwrap()) } else { 0 };
    let n = mv.vs.len();
    if w == 0 || n == 0 || want.len() != 8 + n * w {
        return;
    }
    let mut big = mv.clone();
    big.vs = (0..LARGE).map(|i| mv.vs[i % n].clone()).collect();
    let mut expect = (LARGE as u64).to_le_bytes().to_vec();
    for i in 0..LARGE {
        let k = i % n;
        expect.extend_from_slice(&want[8 + k * w..8 + (k + 1) * w]);
    }
    let mut sink = Tap::new();
    sink.keep_log = false;
    if !e.ops.save(&big, ver, Mode::Bare, &mut sink).is_ok() {
        cx.fail("c01.large.save.bare", "save failed".to_string());
        return;
    }
    if sink.data != expect {
        let at = sink.data.iter().zip(expect.iter()).position(|(a, b)| a != b).unwrap_or(sink.data.len().min(expect.len()));
        cx.fail("c02.large.bytes", format!("{} elements: real {} bytes, spec {} bytes, first difference at byte {}", LARGE, sink.data.len(), expect.len(), at));
    }
    for mode in [Mode::Bare, Mode::Plain, Mode::Bz, Mode::Crypto] {
        let tag = format!("{:?}", mode).to_lowercase();
        let mut sink = Tap::new();
        sink.keep_log = false;
        if !e.ops.save(&big, ver, mode, &mut sink).is_ok() {
            cx.fail(&format!("c01.large.save.{}", tag), "save failed".to_string());
            continue;
        }
        if let Err(why) = container_bytes_ok(&sink.data, ver, mode, &expect) {
            cx.fail(&format!("c02.large.container.{}", tag), why);
        }
        let mut src = TapR::new(&sink.data);
        src.keep_log = false;
        match e.ops.load(&mut src, ver, mode) {
            Outcome::Ok(back) => {
                if back != big {
                    cx.fail(&format!("c01.large.roundtrip.{}", tag), format!("{} elements do not come back equal", LARGE));
                }
                if mode != Mode::Bz && src.pos != sink.data.len() {
                    cx.fail(&format!("c01.large.consumed.{}", tag), format!("pos={} len={}", src.pos, sink.data.len()));
                }
            }
            other => cx.fail(&format!("c01.large.load.{}", tag), format!("{:?}", other).chars().take(200).collect()),
        }
    }
}

/// Command sequences of the shapes Introspect.tla explores (expand by key with disambiguator, select nth, up, nothing;
/// depths 0..2; with and without a child limit), the keys being taken from what the value itself reports.
fn nav_battery(val: &dyn savefile::Introspect) -> Vec<Value> {
    use savefile::{IntrospectedElementKey, Introspector, IntrospectorNavCommand as Cmd};
    use std::panic::{catch_unwind, AssertUnwindSafe};
    let mut fails = vec![];
    // keys of the top frame and of the first child's frame
    let mut keys: Vec<(usize, String, usize)> = vec![];
    if let Ok(Ok(res)) = catch_unwind(AssertUnwindSafe(|| Introspector::new().do_introspect(val, Cmd::SelectNth { select_depth: 0, select_index: 0 }))) {
        for fr in res.frames.iter().take(2) {
            for kv in fr.keyvals.iter().take(3) {
                keys.push((kv.key.depth, kv.key.key.clone(), kv.key.key_disambiguator));
            }
        }
    }
    let mut seqs: Vec<Vec<Cmd>> = vec![vec![Cmd::Nothing], vec![Cmd::Up], vec![Cmd::Nothing, Cmd::Up, Cmd::Up]];
    for d in 0..3usize {
        for i in [0usize, 1, 2, 7] {
            seqs.push(vec![Cmd::SelectNth { select_depth: d, select_index: i }]);
            seqs.push(vec![Cmd::SelectNth { select_depth: 0, select_index: 0 }, Cmd::SelectNth { select_depth: d, select_index: i }, Cmd::Up]);
        }
    }
    for (d, k, dis) in keys.iter() {
        for dd in [*d, d + 1] {
            for ds in [*dis, dis + 1] {
                let key = IntrospectedElementKey { depth: dd, key: k.clone(), key_disambiguator: ds };
                seqs.push(vec![Cmd::ExpandElement(key.clone())]);
                seqs.push(vec![Cmd::ExpandElement(key.clone()), Cmd::SelectNth { select_depth: dd + 1, select_index: 1 }, Cmd::ExpandElement(key), Cmd::Up]);
            }
        }
    }
    seqs.push(vec![Cmd::ExpandElement(IntrospectedElementKey { depth: 0, key: "no such key".to_string(), key_disambiguator: 0 })]);
    for limit in [usize::MAX, 0, 1, 2] {
        for (n, seq) in seqs.iter().enumerate() {
            let mut insp = if limit == usize::MAX { Introspector::new() } else { Introspector::new_with(limit) };
            for (step, cmd) in seq.iter().enumerate() {
                let r = catch_unwind(AssertUnwindSafe(|| insp.do_introspect(val, cmd.clone())));
                match r {
                    Err(_) => {
                        fails.push(json!({"check": "c17.real.nav.panic", "detail": format!("limit {:?} sequence #{} {:?}: do_introspect panicked at step {}", limit, n, seq, step)}));
                        break;
                    }
                    Ok(Err(_)) => {}
                    Ok(Ok(res)) => {
                        let total = res.total_len();
                        for i in 0..total + 2 {
                            match catch_unwind(AssertUnwindSafe(|| res.total_index(i).is_some())) {
                                Err(_) => fails.push(json!({"check": "c17.real.total_index.panic", "detail": format!("limit {:?} sequence {:?}: total_index({}) panicked (total_len {})", limit, seq, i, total)})),
                                Ok(some) => {
                                    if some != (i < total) {
                                        fails.push(json!({"check": "c17.real.total_index.dense", "detail": format!("limit {:?} sequence {:?}: total_index({}) is {} although total_len = {}", limit, seq, i, if some { "Some" } else { "None" }, total)}));
                                    }
                                }
                            }
                        }
                    }
                }
                if fails.len() > 3 {
                    return fails;
                }
            }
        }
    }
    fails
}

/// C03 / C18: bytes written by one program version, read by another.
fn evo_one(reg: &HashMap<String, Entry>, rec: &Value, cx: &mut Ctx) {
    let mode = rec["mode"].as_str().unwrap();
    let i = rec["i"].as_u64().unwrap() as u32;
    let j = rec["j"].as_u64().unwrap() as u32;
    let mv: MV = serde_json::from_value(rec["v"].clone()).expect("model value");
    let expect: MV = serde_json::from_value(rec["expect"].clone()).expect("model value");
    let want = bytes_of(&rec["bytes"]);
    let (ki, kj) = (canon(&rec["ts"][0]), canon(&rec["ts"][1]));
    let (Some(ei), Some(ej)) = (reg.get(&ki), reg.get(&kj)) else {
        cx.fail("tool.missing_type", format!("{} / {}", ki, kj));
        return;
    };
    // "up": program i writes at i, program j reads.   "down": program j writes at i, program i reads.
    let (p, writer, reader, mem_ver) = if mode == "up" { ("c03", ei, ej, j) } else { ("c18", ej, ei, i) };
    let mut sink = Tap::new();
    let so = writer.ops.save(&mv, i, Mode::Bare, &mut sink);
    if !so.is_ok() {
        cx.fail(&format!("{}.save.bare", p), format!("{:?}", so));
        return;
    }
    if sink.data != want {
        cx.fail(&format!("{}.bytes", p), format!("real={:?} spec={:?}", sink.data, want));
        if mode == "up" {
            cx.fail("c02.bytes.versioned", format!("real={:?} spec={:?}", sink.data, want));
        }
    }
    for (tag, data) in [("real", &sink.data), ("spec", &want)] {
        let mut src = TapR::new(data);
        match reader.ops.load(&mut src, i, Mode::Bare) {
            Outcome::Ok(back) => {
                if back != expect {
                    cx.fail(&format!("{}.value.bare.{}", p, tag), format!("loaded={:?} expected={:?}", back, expect));
                }
                if src.pos != data.len() {
                    cx.fail(&format!("{}.consumed.bare.{}", p, tag), format!("pos={} len={}", src.pos, data.len()));
                }
            }
            other => cx.fail(&format!("{}.load.bare.{}", p, tag), format!("{:?}", other)),
        }
    }
    if mode == "up" {
        for mode in [Mode::Plain, Mode::NoSchema, Mode::Bz, Mode::Crypto] {
            let tag = format!("{:?}", mode).to_lowercase();
            let mut sink = Tap::new();
            sink.keep_log = false;
            let so = writer.ops.save(&mv, i, mode, &mut sink);
            if !so.is_ok() {
                cx.fail(&format!("c03.save.{}", tag), format!("{:?}", so));
                continue;
            }
            // C02 for every data version the type declares: the container of program i written at version i
            if let Err(why) = container_bytes_ok(&sink.data, i, mode, &want) {
                cx.fail(&format!("c02.container.{}", tag), why);
            }
            let mut src = TapR::new(&sink.data);
            src.keep_log = false;
            match reader.ops.load(&mut src, mem_ver, mode) {
                Outcome::Ok(back) => {
                    if back != expect {
                        cx.fail(&format!("c03.value.{}", tag), format!("loaded={:?} expected={:?}", back, expect));
                    }
                }
                other => {
                    // C05 (converse clause): program j's schema at version i describes exactly the layout program i wrote
                    // (that is what EvolutionLoad proves on the model), so the schema gate must let the file through
                    if let Outcome::Err(c, _) = &other {
                        if c == "IncompatibleSchema" && mode != Mode::NoSchema {
                            cx.fail(&format!("c05.evolved_rejected.{}", tag), format!("{:?}", other));
                        }
                    }
                    cx.fail(&format!("c03.load.{}", tag), format!("{:?}", other))
                }
            }
        }
    }
}

/// observed layout tree [sz, al, offs, kids] of a descriptor (spec/Packed.tla); sizes, alignments and offsets
/// come from size_of / align_of / offset_of of the real types
fn layout_tree(reg: &HashMap<String, Entry>, t: &Value) -> Value {
    let k = t["k"].as_str().unwrap();
    let leaf = |sz: usize, al: usize| json!({"sz": sz, "al": al, "offs": [], "kids": []});
    let entry = reg.get(&canon(t));
    let (sz, al) = entry.map(|e| (e.layout.size, e.layout.align)).unwrap_or((0, 1));
    let ts: Vec<Value> = t["ts"].as_array().cloned().unwrap_or_default();
    match k {
        "p" => {
            let w = prim_width(t["s"].as_str().unwrap());
            leaf(w, if w == 0 { 1 } else { w })
        }
        "struct" | "tup" => {
            let Some(e) = entry else { return leaf(0, 1) };
            let kids: Vec<Value> = ts
                .iter()
                .enumerate()
                .map(|(i, c)| {
                    let removed = k == "struct" && t["fa"][i]["rm"] != "no";
                    if removed {
                        return leaf(0, 1);
                    }
                    let mut n = layout_tree(reg, c);
                    // a field type that is not itself a registered composite: its size is what the parent recorded
                    if reg.get(&canon(c)).is_none() && c["k"] != "p" {
                        n = leaf(e.layout.fsizes[i], 1);
                    }
                    n
                })
                .collect();
            json!({"sz": sz, "al": al, "offs": e.layout.offs, "kids": kids})
        }
        "arr" | "box" => json!({"sz": sz, "al": al, "offs": [], "kids": [layout_tree(reg, &ts[0])]}),
        "enum" => {
            let kids: Vec<Value> = ts
                .iter()
                .map(|var| {
                    let fk: Vec<Value> = var["ts"].as_array().unwrap().iter().map(|c| layout_tree(reg, c)).collect();
                    json!({"sz": 0, "al": 1, "offs": [], "kids": fk})
                })
                .collect();
            json!({"sz": sz, "al": al, "offs": [], "kids": kids})
        }
        _ => leaf(sz, al.max(1)),
    }
}

/// WIRE_START=n : skip the first n records and append to the output (used by the driver to resume after the
/// process was killed by the code under test, e.g. an allocation failure abort)
fn start_at() -> usize {
    std::env::var("WIRE_START").ok().and_then(|s| s.parse().ok()).unwrap_or(0)
}
fn open_out(path: &str) -> BufWriter<std::fs::File> {
    let f = if start_at() > 0 {
        std::fs::OpenOptions::new().append(true).open(path).expect("out file")
    } else {
        std::fs::File::create(path).expect("out file")
    };
    BufWriter::new(f)
}

fn main() {
    let args: Vec<String> = std::env::args().collect();
    let cmd = args.get(1).map(|s| s.as_str()).unwrap_or("");
    std::panic::set_hook(Box::new(|_| {}));
    let reg: HashMap<String, Entry> = genwire::registry().into_iter().map(|e| (e.key.clone(), e)).collect();
    match cmd {
        "replay" => {
            let input = std::fs::File::open(&args[2]).expect("records file");
            let mut out = open_out(&args[3]);
            let every: usize = std::env::var("WIRE_ALLMODES_EVERY").ok().and_then(|s| s.parse().ok()).unwrap_or(1);
            for (i, line) in std::io::BufReader::new(input).lines().enumerate() {
                let line = line.unwrap();
                if i < start_at() || line.trim().is_empty() {
                    continue;
                }
                let rec: Value = serde_json::from_str(&line).expect("record json");
                let key = canon(&rec["t"]);
                let mut cx = Ctx { fails: vec![] };
                let obs = match reg.get(&key) {
                    Some(e) => replay_one(e, &rec, i % every == 0, &mut cx),
                    None => {
                        cx.fail("tool.missing_type", key.clone());
                        json!({})
                    }
                };
                let res = json!({"i": i, "fails": cx.fails, "obs": obs});
                writeln!(out, "{}", res).unwrap();
                out.flush().unwrap();
            }
        }
        "evo" => {
            let input = std::fs::File::open(&args[2]).expect("records file");
            let mut out = open_out(&args[3]);
            for (i, line) in std::io::BufReader::new(input).lines().enumerate() {
                let line = line.unwrap();
                if i < start_at() || line.trim().is_empty() {
                    continue;
                }
                let rec: Value = serde_json::from_str(&line).expect("record json");
                let mut cx = Ctx { fails: vec![] };
                evo_one(&reg, &rec, &mut cx);
                writeln!(out, "{}", json!({"i": i, "fails": cx.fails})).unwrap();
                out.flush().unwrap();
            }
        }
        "garbage" => {
            // C06 / C07(payload): load malformed input; record what happened; the verdict is TLC's (MutTrace.tla)
            // Address-space limit: an absurd declared length must fail to allocate at once instead of
            // zero-filling gigabytes (hash tables, bit vectors) before the reader notices the end of input.
            // (the limit is RELATIVE to what this process already maps: the registry of the thorough tier alone is large)
            unsafe {
                let mapped = std::fs::read_to_string("/proc/self/statm")
                    .ok()
                    .and_then(|s| s.split_whitespace().next().and_then(|p| p.parse::<u64>().ok()))
                    .map(|pages| pages * 4096)
                    .unwrap_or(1 << 30);
                let lim = mapped + (3u64 << 29);
                let lim = libc::rlimit { rlim_cur: lim, rlim_max: lim };
                libc::setrlimit(libc::RLIMIT_AS, &lim);
            }
            let input = std::fs::File::open(&args[2]).expect("records file");
            let mut out = open_out(&args[3]);
            for (i, line) in std::io::BufReader::new(input).lines().enumerate() {
                let line = line.unwrap();
                if i < start_at() || line.trim().is_empty() {
                    continue;
                }
                let rec: Value = serde_json::from_str(&line).expect("record json");
                let key = canon(&rec["t"]);
                let ver = rec["ver"].as_u64().unwrap() as u32;
                let inp = bytes_of(&rec["inp"]);
                let risky = rec["err"] == "eof-or-alloc";
                let run = || -> Value {
                    match reg.get(&key) {
                        None => json!({"real": "tool", "msg": format!("missing type {}", key), "rpos": 0, "reser": [], "oom": false}),
                        Some(e) => {
                            let mut src = TapR::new(&inp);
                            src.keep_log = false;
                            match e.ops.reload(&mut src, ver) {
                                Outcome::Ok(b) => json!({"real": "ok", "msg": "", "rpos": src.pos, "reser": b, "oom": false}),
                                Outcome::Err(c, m) => json!({"real": "err", "msg": format!("{}: {}", c, m), "rpos": src.pos, "reser": [], "oom": false}),
                                Outcome::Panic(m) => {
                                    let oom = m.contains("allocat") || m.contains("capacity overflow");
                                    json!({"real": "panic", "msg": m, "rpos": src.pos, "reser": [], "oom": oom})
                                }
                            }
                        }
                    }
                };
                // inputs whose declared length is absurd are handled in a forked child: an allocation-failure
                // abort then costs a fork, not a restart of this process
                let obs = if risky { vcommon::in_child(run) } else { run() };
                writeln!(out, "{}", json!({"i": i, "fails": [], "obs": obs})).unwrap();
                out.flush().unwrap();
            }
        }
        "deep" => {
            // C06: deeply nested (but perfectly well-formed) input for the recursive definitions:
            //   RecList: depth levels of (u16 value, tag 1) then (value, tag 0);  RecTree: depth levels of (u8, length 1) then (u8, length 0)
            //   wire deep <depths,comma separated> <out> [<records of spec/Deep.tla>]
            let mut out = open_out(&args[3]);
            // the generator below must produce exactly the specification's encodings (checked on the depths TLC exported)
            let spec: Vec<Value> = args.get(4).map(|p| std::fs::read_to_string(p).expect("deep records").lines().map(|l| serde_json::from_str(l).expect("json")).collect()).unwrap_or_default();
            for depth in args[2].split(',').map(|d| d.parse::<usize>().expect("depth")) {
                for ty in ["RecList", "RecTree"] {
                    let mut inp = Vec::new();
                    for i in 0..=depth {
                        let last = i == depth;
                        if ty == "RecList" {
                            inp.extend_from_slice(&[(i % 251) as u8, 1]);
                            inp.push(if last { 0 } else { 1 });
                        } else {
                            inp.push((i % 251) as u8);
                            inp.extend_from_slice(&(if last { 0u64 } else { 1u64 }).to_le_bytes());
                        }
                    }
                    let n = inp.len();
                    if let Some(rec) = spec.iter().find(|r| r["ty"] == ty && r["depth"].as_u64() == Some(depth as u64)) {
                        if bytes_of(&rec["bytes"]) != inp {
                            writeln!(out, "{}", json!({"ty": ty, "depth": depth, "bytes": n, "tool_error": "the harness's generator of nested input disagrees with spec/Deep.tla"})).unwrap();
                            continue;
                        }
                    }
                    let obs = vcommon::in_child(move || {
                        let mut src = TapR::new(&inp);
                        src.keep_log = false;
                        let r = if ty == "RecList" {
                            guarded(|| savefile::Deserializer::bare_deserialize::<vcommon::RecList>(&mut src, 0).map(|v| {
                                // count the levels without recursing, and take the value apart iteratively so that dropping it cannot overflow either
                                let mut levels = 1usize;
                                let mut cur = v;
                                while let Some(next) = cur.next.take() {
                                    levels += 1;
                                    cur = *next;
                                }
                                levels
                            }))
                        } else {
                            guarded(|| savefile::Deserializer::bare_deserialize::<vcommon::RecTree>(&mut src, 0).map(|v| {
                                let mut levels = 1usize;
                                let mut cur = v;
                                while let Some(next) = cur.kids.pop() {
                                    levels += 1;
                                    cur = next;
                                }
                                levels
                            }))
                        };
                        match r {
                            Outcome::Ok(levels) => json!({"real": "ok", "msg": "", "levels": levels, "rpos": src.pos, "reser": [], "oom": false}),
                            Outcome::Err(c, m) => json!({"real": "err", "msg": format!("{}: {}", c, m), "levels": 0, "rpos": src.pos, "reser": [], "oom": false}),
                            Outcome::Panic(m) => json!({"real": "panic", "msg": m, "levels": 0, "rpos": src.pos, "reser": [], "oom": false}),
                        }
                    });
                    writeln!(out, "{}", json!({"ty": ty, "depth": depth, "bytes": n, "obs": obs})).unwrap();
                }
            }
        }
        "prefixes" => {
            // C07: every strict prefix of every real file, in every container
            let input = std::fs::File::open(&args[2]).expect("records file");
            let mut out = open_out(&args[3]);
            for (i, line) in std::io::BufReader::new(input).lines().enumerate() {
                let line = line.unwrap();
                if i < start_at() || line.trim().is_empty() {
                    continue;
                }
                let rec: Value = serde_json::from_str(&line).expect("record json");
                let key = canon(&rec["t"]);
                let ver = rec["ver"].as_u64().unwrap() as u32;
                let mv: MV = serde_json::from_value(rec["v"].clone()).expect("model value");
                let mut fails = vec![];
                let mut ncuts = 0usize;
                if let Some(e) = reg.get(&key) {
                    for mode in [Mode::Plain, Mode::NoSchema, Mode::Bz, Mode::Crypto] {
                        let tag = format!("{:?}", mode).to_lowercase();
                        let mut sink = Tap::new();
                        sink.keep_log = false;
                        if !e.ops.save(&mv, ver, mode, &mut sink).is_ok() {
                            continue;
                        }
                        let file = sink.data;
                        for k in 0..file.len() {
                            ncuts += 1;
                            let mut src = TapR::new(&file[..k]);
                            src.keep_log = false;
                            match e.ops.load(&mut src, ver, mode) {
                                Outcome::Err(..) => {}
                                Outcome::Ok(back) => {
                                    // only trailing container bytes may be missing (bzip2 end-of-stream trailer)
                                    if back != mv {
                                        fails.push(json!({"check": format!("c07.prefix.{}.different_value", tag),
                                            "detail": format!("prefix {}/{} loaded as {:?}", k, file.len(), back)}));
                                    } else if mode != Mode::Bz {
                                        fails.push(json!({"check": format!("c07.prefix.{}.accepted", tag),
                                            "detail": format!("prefix {}/{} was accepted (equal value) although payload bytes are missing", k, file.len())}));
                                    }
                                }
                                Outcome::Panic(m) => fails.push(json!({"check": format!("c07.prefix.{}.panic", tag),
                                    "detail": format!("prefix {}/{} panicked: {}", k, file.len(), m)})),
                            }
                        }
                    }
                } else {
                    fails.push(json!({"check": "tool.missing_type", "detail": key}));
                }
                writeln!(out, "{}", json!({"i": i, "fails": fails, "obs": {"cuts": ncuts}})).unwrap();
                out.flush().unwrap();
            }
        }
        "pairs" => {
            // C05: every ordered pair (type saved, type loaded) of the gate catalogue, class from GateMC.tla
            let text = std::fs::read_to_string(&args[2]).expect("records file");
            let mut recs: Vec<Value> = text.lines().filter(|l| !l.trim().is_empty()).map(|l| serde_json::from_str(l).unwrap()).collect();
            recs.sort_by_key(|r| r["ia"].as_u64().unwrap());
            let mut out = open_out(&args[3]);
            for ra in recs.iter() {
                let ia = ra["ia"].as_u64().unwrap() as usize;
                let ka = canon(&ra["t"]);
                let mv: MV = serde_json::from_value(ra["v"].clone()).expect("model value");
                let mut fails = vec![];
                let Some(ea) = reg.get(&ka) else {
                    writeln!(out, "{}", json!({"i": ia, "fails": [{"check": "tool.missing_type", "detail": ka}]})).unwrap();
                    continue;
                };
                for mode in [Mode::Plain, Mode::Bz] {
                    let tag = format!("{:?}", mode).to_lowercase();
                    let mut sink = Tap::new();
                    sink.keep_log = false;
                    if !ea.ops.save(&mv, 0, mode, &mut sink).is_ok() {
                        fails.push(json!({"check": "c05.save", "detail": "save failed"}));
                        continue;
                    }
                    for rb in recs.iter() {
                        let ib = rb["ia"].as_u64().unwrap() as usize;
                        let class = ra["classes"][ib - 1].as_str().unwrap();
                        let kb = canon(&rb["t"]);
                        let Some(eb) = reg.get(&kb) else { continue };
                        let mut src = TapR::new(&sink.data);
                        src.keep_log = false;
                        let r = eb.ops.load(&mut src, 0, mode);
                        let what = |r: &Outcome<MV>| match r {
                            Outcome::Ok(_) => "Ok".to_string(),
                            Outcome::Err(c, _) => format!("Err({})", c),
                            Outcome::Panic(m) => format!("Panic({})", m),
                        };
                        match (class, &r) {
                            (_, Outcome::Panic(_)) => fails.push(json!({"check": format!("c05.pair.{}.panic", tag), "ib": ib, "detail": what(&r)})),
                            ("accept", Outcome::Ok(back)) => {
                                if ka == kb && *back != mv {
                                    fails.push(json!({"check": format!("c05.pair.{}.value", tag), "ib": ib, "detail": format!("{:?}", back)}));
                                }
                            }
                            ("accept", _) => fails.push(json!({"check": format!("c05.pair.{}.rejected_same_layout", tag), "ib": ib, "detail": what(&r)})),
                            ("reject", Outcome::Err(c, _)) if c == "IncompatibleSchema" => {}
                            ("reject", _) => fails.push(json!({"check": format!("c05.pair.{}.accepted_different_layout", tag), "ib": ib, "detail": what(&r)})),
                            _ => {}
                        }
                    }
                }
                writeln!(out, "{}", json!({"i": ia, "fails": fails})).unwrap();
                out.flush().unwrap();
            }
        }
        "headers" => {
            // C05 header clause: Container.tla behaviours on real files
            let input = std::fs::File::open(&args[2]).expect("records file");
            let mut out = open_out(&args[3]);
            let key_of = |name: &str| canon(&json!({"k": "p", "s": name, "n": 0, "ts": [], "fa": []}));
            let (e32, e16) = (reg.get(&key_of("u32")).expect("u32 registered"), reg.get(&key_of("u16")).expect("u16 registered"));
            let v32: MV = MV::b(vec![1, 2, 3, 4]);
            let v16: MV = MV::b(vec![1, 2]);
            for (i, line) in std::io::BufReader::new(input).lines().enumerate() {
                let line = line.unwrap();
                if line.trim().is_empty() {
                    continue;
                }
                let rec: Value = serde_json::from_str(&line).expect("record json");
                let f = &rec["file"];
                let with_schema = rec["withSchema"].as_bool().unwrap();
                let compressed = f["flag"].as_u64().unwrap() == 1;
                let dataver = f["dataver"].as_u64().unwrap() as u32;
                let mem = rec["mem"].as_u64().unwrap() as u32;
                let mut fails = vec![];
                // the writer: u32 (same schema) or u16 (different schema)
                let (ew, vw) = if f["schema"] == "different" { (e16, &v16) } else { (e32, &v32) };
                let mode_w = if compressed { Mode::Bz } else if with_schema { Mode::Plain } else { Mode::NoSchema };
                let mut sink = Tap::new();
                sink.keep_log = false;
                if compressed && !with_schema {
                    // there is no public schema-less compressed writer: skip (the model covers it)
                    writeln!(out, "{}", json!({"i": i, "fails": [], "skipped": true})).unwrap();
                    continue;
                }
                if !ew.ops.save(vw, dataver, mode_w, &mut sink).is_ok() {
                    fails.push(json!({"check": "c05.header.save", "detail": "save failed"}));
                }
                let mut file = sink.data;
                if !f["magic"].as_bool().unwrap() {
                    file[3] ^= 0x20;
                }
                let lib = f["lib"].as_u64().unwrap() as u16;
                if lib == 3 {
                    file[9..11].copy_from_slice(&lib.to_le_bytes());
                }
                let gate_len = if compressed { file.len() } else { file.len() - vw.bs.len() };
                let mode_r = if with_schema { if compressed { Mode::Bz } else { Mode::Plain } } else { Mode::NoSchema };
                let mut src = TapR::new(&file);
                src.keep_log = false;
                let r = e32.ops.load(&mut src, mem, mode_r);
                let want = rec["result"].as_str().unwrap();
                let got = match &r {
                    Outcome::Ok(_) => "value".to_string(),
                    Outcome::Err(c, _) => c.clone(),
                    Outcome::Panic(m) => format!("panic {}", m),
                };
                if lib <= 2 && lib != 2 {
                    // files of library format 0/1 are not produced here (C13 covers the old schema formats)
                } else if !(got == want || (want.starts_with("GeneralError") && got == "GeneralError")) {
                    fails.push(json!({"check": "c05.header.outcome", "detail": format!("real {} spec {}", got, want)}));
                }
                if want != "value" && !compressed && src.pos > gate_len {
                    fails.push(json!({"check": "c05.header.payload_read_before_gate", "detail": format!("reader consumed {} bytes, header+schema is {}", src.pos, gate_len)}));
                }
                writeln!(out, "{}", json!({"i": i, "fails": fails})).unwrap();
            }
        }
        "introlen" => {
            // C17, first clause: introspect_len() == number of children fetchable by consecutive indices from 0
            let input = std::fs::File::open(&args[2]).expect("records file");
            let mut out = BufWriter::new(std::fs::File::create(&args[3]).expect("out file"));
            for (i, line) in std::io::BufReader::new(input).lines().enumerate() {
                let line = line.unwrap();
                if line.trim().is_empty() {
                    continue;
                }
                let rec: Value = serde_json::from_str(&line).expect("record json");
                let key = canon(&rec["t"]);
                let mut fails = vec![];
                let mut obs = json!(null);
                match reg.get(&key) {
                    None => fails.push(json!({"check": "tool.missing_type", "detail": key})),
                    Some(e) => {
                        if let Some(io) = &e.intro {
                            let mv: MV = serde_json::from_value(rec["v"].clone()).expect("model value");
                            match io.introspect_counts(&mv) {
                                Outcome::Ok((len, n, extra)) => {
                                    obs = json!({"len": len, "children": n});
                                    if len != n {
                                        fails.push(json!({"check": "c17.len", "detail": format!("introspect_len() = {} but {} children can be fetched by index", len, n)}));
                                    }
                                    if let Some(x) = extra {
                                        fails.push(json!({"check": "c17.gap", "detail": format!("child {} exists although child {} does not (not consecutive)", x, n)}));
                                    }
                                }
                                other => fails.push(json!({"check": "c17.len.panic", "detail": format!("{:?}", other)})),
                            }
                            // navigation over the REAL value: the invariants of Introspect.tla (NoPanic, TotalIndexDense)
                            // on the real Introspect impls of library and derived types
                            io.with_introspect(&mv, &mut |val| {
                                for f in nav_battery(val) {
                                    fails.push(f);
                                }
                            });
                        }
                    }
                }
                writeln!(out, "{}", json!({"i": i, "fails": fails, "obs": obs})).unwrap();
            }
        }
        "schemas" => {
            // impl -> spec observations for C12: real schema + real bytes per (type, version)
            // input lines: {t, ver, vs:[model values]}
            let input = std::fs::File::open(&args[2]).expect("records file");
            let mut out = BufWriter::new(std::fs::File::create(&args[3]).expect("out file"));
            for line in std::io::BufReader::new(input).lines() {
                let line = line.unwrap();
                if line.trim().is_empty() {
                    continue;
                }
                let rec: Value = serde_json::from_str(&line).expect("record json");
                let key = canon(&rec["t"]);
                let ver = rec["ver"].as_u64().unwrap() as u32;
                let Some(e) = reg.get(&key) else {
                    writeln!(out, "{}", json!({"tool_error": format!("missing type {}", key)})).unwrap();
                    continue;
                };
                let schema = match e.ops.schema(ver) {
                    Outcome::Ok(s) => schema_node(&s),
                    other => {
                        writeln!(out, "{}", json!({"t": rec["t"], "ver": ver, "schema_error": format!("{:?}", other)})).unwrap();
                        continue;
                    }
                };
                let mut cases = vec![];
                for v in rec["vs"].as_array().unwrap() {
                    let mv: MV = serde_json::from_value(v.clone()).expect("model value");
                    let mut sink = Tap::new();
                    sink.keep_log = false;
                    if e.ops.save(&mv, ver, Mode::Bare, &mut sink).is_ok() {
                        cases.push(json!({"v": v, "bytes": sink.data}));
                    }
                }
                writeln!(out, "{}", json!({"t": rec["t"], "ver": ver, "schema": schema, "cases": cases})).unwrap();
            }
        }
        "layouts" => {
            // impl -> spec observations for C04: {t, ver, packed (REAL repr_c_optimization_safe), lt (OBSERVED layout tree)}
            // input lines: {t, vers:[..]}
            let input = std::fs::File::open(&args[2]).expect("records file");
            let mut out = BufWriter::new(std::fs::File::create(&args[3]).expect("out file"));
            for line in std::io::BufReader::new(input).lines() {
                let line = line.unwrap();
                if line.trim().is_empty() {
                    continue;
                }
                let rec: Value = serde_json::from_str(&line).expect("record json");
                let key = canon(&rec["t"]);
                let Some(e) = reg.get(&key) else {
                    writeln!(out, "{}", json!({"tool_error": format!("missing type {}", key)})).unwrap();
                    continue;
                };
                let lt = layout_tree(&reg, &rec["t"]);
                // the decision must be a function of the version alone: every version is asked in descending and then in ascending
                // order (a decision remembered from the first version asked would show in one of the two passes); "packed" is
                // reported if either answer claims it
                let vers: Vec<u32> = rec["vers"].as_array().unwrap().iter().map(|v| v.as_u64().unwrap() as u32).collect();
                let down: Vec<bool> = vers.iter().rev().map(|v| e.ops.packed(*v)).collect();
                for (n, ver) in vers.iter().enumerate() {
                    let up = e.ops.packed(*ver);
                    let dn = down[vers.len() - 1 - n];
                    writeln!(out, "{}", json!({"t": rec["t"], "ver": ver, "packed": up || dn, "stable": up == dn, "lt": lt, "rust": e.rust})).unwrap();
                }
            }
        }
        _ => {
            eprintln!("usage: wire replay <records> <out> | layouts <out>");
            std::process::exit(2);
        }
    }
}

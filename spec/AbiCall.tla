------------------------------- MODULE AbiCall -------------------------------
(***************************************************************************)
(* C09: calls through an ABI connection have the same observable effect as *)
(* calling the implementation directly.                                    *)
(*                                                                         *)
(* The model tracks what the property talks about:                         *)
(*   log     what the implementation observed (method, argument digest),   *)
(*           including callbacks it made into caller-side closures         *)
(*   rets    what the caller received (value digest, or panic + message)   *)
(*   objs    every owned object (implementation instance, boxed trait      *)
(*           objects passed in either direction, boxed closures) with its  *)
(*           current owner and the number of times it has been dropped     *)
(* and, per call, how the argument bytes travel: "array" (sizes known at   *)
(* compile time), "inline" (<= 64 bytes FlexBuffer) or "spill" (heap).     *)
(* A behaviour is a sequence of calls followed by dropping everything the  *)
(* caller still owns and the connection.                                   *)
(***************************************************************************)
EXTENDS Naturals, Sequences, FiniteSets, TLC, Json

CONSTANT MaxCalls

FLEX == 64
\* the menu of calls: [m, x] ; x is a small parameter whose meaning depends on m
\*   blob : x = payload length (argument bytes = 4 version + 8 length + x)
\*   callfn: x = number of times the implementation invokes the closure
Menu ==
    {[m |-> "add", x |-> x] : x \in {0, 7}}
    \cup {[m |-> "concat", x |-> x] : x \in {0, 3}}
    \cup {[m |-> "join", x |-> x] : x \in {43, 44, 45}}            \* two Strings: 4 + 8 + x + 8 reaches exactly 64 for x = 44, then more follows
    \cup {[m |-> "sum", x |-> x] : x \in {0, 5}}
    \cup {[m |-> "blob", x |-> x] : x \in {0, 51, 52, 53, 300}}
    \cup {[m |-> "check", x |-> x] : x \in {0, 1}}                    \* 0 -> Ok, 1 -> Err
    \cup {[m |-> "take_obj", x |-> 0], [m |-> "make_obj", x |-> 0], [m |-> "use_obj", x |-> 0], [m |-> "drop_obj", x |-> 0]}
    \cup {[m |-> "callfn", x |-> x] : x \in {0, 1, 2}}
    \cup {[m |-> "callfnmut", x |-> x] : x \in {1, 3}}
    \cup {[m |-> "boxed_fn", x |-> 0], [m |-> "use_boxed_fn", x |-> 4]}
    \cup {[m |-> "panic_lit", x |-> 0], [m |-> "panic_fmt", x |-> 9]}
    \cup {[m |-> "fut", x |-> x] : x \in {0, 1, 2}}                 \* boxed future, Pending x times before Ready; driven at once
    \cup {[m |-> "hold_fut", x |-> 1]}                              \* boxed future kept by the caller without polling it

ArgBytes(c) ==
    CASE c.m = "add" -> 4 + 8
      [] c.m = "blob" -> 4 + 8 + c.x
      [] c.m = "concat" -> 4 + 16 + 8 + c.x      \* &str travels as pointer + length, the String serialized
      [] c.m = "join" -> 4 + 8 + c.x + 8 + 2
      [] OTHER -> 4 + 8
BufKind(c) == IF c.m = "add" THEN "array" ELSE IF ArgBytes(c) <= FLEX THEN "inline" ELSE "spill"

VARIABLES calls,    \* calls made so far
          log,      \* what the implementation observed
          rets,     \* what the caller received
          objs,     \* id -> [kind, owner, drops]
          held,     \* ids of objects the caller holds and may use / drop (sequence, oldest first)
          phase     \* "calling" | "closed"
vars == <<calls, log, rets, objs, held, phase>>

Obj(kind, owner) == [kind |-> kind, owner |-> owner, drops |-> 0]
NewId == Cardinality(DOMAIN objs) + 1
With(id, o) == [x \in DOMAIN objs \cup {id} |-> IF x = id THEN o ELSE objs[x]]
Dropped(id) == With(id, [objs[id] EXCEPT !.owner = "dropped", !.drops = objs[id].drops + 1])

Init == /\ calls = <<>> /\ log = <<>> /\ rets = <<>> /\ held = <<>> /\ phase = "calling"
        /\ objs = [x \in {1} |-> Obj("impl", "connection")]           \* the implementation instance, owned by the connection

Ev(k, a) == [k |-> k, a |-> a]
\* plain data calls: the implementation observes the argument, the caller receives the result
Plain(c) ==
    /\ c.m \in {"add", "concat", "join", "sum", "blob", "check"}
    /\ log' = Append(log, Ev(c.m, c.x))
    /\ rets' = Append(rets, Ev(IF c.m = "check" /\ c.x = 1 THEN "err" ELSE "ok", c.x))
    /\ UNCHANGED <<objs, held>>
\* a boxed trait object passed to the implementation: it is used there, then dropped there, exactly once
TakeObj(c) ==
    /\ c.m = "take_obj"
    /\ objs' = [x \in DOMAIN objs \cup {NewId} |-> IF x = NewId THEN [kind |-> "obj", owner |-> "dropped", drops |-> 1] ELSE objs[x]]
    /\ log' = log \o <<Ev("take_obj", NewId), Ev("obj.id", NewId)>>
    /\ rets' = Append(rets, Ev("ok", NewId))
    /\ UNCHANGED held
\* a boxed trait object returned to the caller: the caller owns it
MakeObj(c) ==
    /\ c.m = "make_obj"
    /\ objs' = With(NewId, Obj("obj", "caller"))
    /\ held' = Append(held, NewId)
    /\ log' = Append(log, Ev("make_obj", NewId))
    /\ rets' = Append(rets, Ev("obj", NewId))
UseObj(c) ==
    /\ c.m = "use_obj" /\ \E n \in 1..Len(held) : objs[held[n]].kind = "obj"
    /\ LET id == held[CHOOSE n \in 1..Len(held) : objs[held[n]].kind = "obj" /\ \A k \in 1..(n - 1) : objs[held[k]].kind # "obj"] IN
       /\ log' = Append(log, Ev("obj.id", id))
       /\ rets' = Append(rets, Ev("ok", id))
    /\ UNCHANGED <<objs, held>>
DropObj(c) ==
    /\ c.m = "drop_obj" /\ held # <<>>
    /\ objs' = Dropped(Head(held)) /\ held' = Tail(held)
    /\ log' = Append(log, Ev("drop", Head(held)))
    /\ rets' = Append(rets, Ev("ok", 0))
\* closures passed by reference: the implementation calls back c.x times, the closure stays with the caller
CallFn(c) ==
    /\ c.m \in {"callfn", "callfnmut"}
    /\ log' = log \o <<Ev(c.m, c.x)>> \o [n \in 1..c.x |-> Ev("callback", n)]
    /\ rets' = Append(rets, Ev("ok", c.x))
    /\ UNCHANGED <<objs, held>>
\* a boxed closure returned to the caller, later called and dropped by the caller
BoxedFn(c) ==
    /\ c.m = "boxed_fn"
    /\ objs' = With(NewId, Obj("fn", "caller"))
    /\ held' = Append(held, NewId)
    /\ log' = Append(log, Ev("boxed_fn", NewId))
    /\ rets' = Append(rets, Ev("fn", NewId))
UseBoxedFn(c) ==
    /\ c.m = "use_boxed_fn" /\ \E n \in 1..Len(held) : objs[held[n]].kind = "fn"
    /\ LET id == held[CHOOSE n \in 1..Len(held) : objs[held[n]].kind = "fn" /\ \A k \in 1..(n - 1) : objs[held[k]].kind # "fn"] IN
       /\ log' = Append(log, Ev("fn.call", c.x))
       /\ rets' = Append(rets, Ev("ok", c.x + id))
    /\ UNCHANGED <<objs, held>>
\* a panic in the implementation: the caller panics with its message, nothing unwinds through the boundary,
\* the connection stays usable (the next call is enabled as before)
Panic(c) ==
    /\ c.m \in {"panic_lit", "panic_fmt"}
    /\ log' = Append(log, Ev(c.m, c.x))
    /\ rets' = Append(rets, Ev("panic", c.x))
    /\ UNCHANGED <<objs, held>>

\* a boxed future returned to the caller: the caller polls it (each Pending wakes the caller's waker), obtains the
\* output and drops it -- all objects involved live on the implementation's side of the boundary
Fut(c) ==
    /\ c.m = "fut"
    /\ objs' = [x \in DOMAIN objs \cup {NewId} |-> IF x = NewId THEN [kind |-> "fut", owner |-> "dropped", drops |-> 1] ELSE objs[x]]
    /\ log' = log \o <<Ev("fut", NewId)>> \o [n \in 1..(c.x + 1) |-> Ev("poll", c.x + 1 - n)]
    /\ rets' = Append(rets, Ev("ok", c.x))
    /\ UNCHANGED held
\* a future that is never polled: the caller owns it until it drops it
HoldFut(c) ==
    /\ c.m = "hold_fut"
    /\ objs' = With(NewId, Obj("fut", "caller"))
    /\ held' = Append(held, NewId)
    /\ log' = Append(log, Ev("fut", NewId))
    /\ rets' = Append(rets, Ev("fut", NewId))

Call == /\ phase = "calling" /\ Len(calls) < MaxCalls
        /\ \E c \in Menu :
             /\ Plain(c) \/ TakeObj(c) \/ MakeObj(c) \/ UseObj(c) \/ DropObj(c) \/ CallFn(c) \/ BoxedFn(c) \/ UseBoxedFn(c) \/ Panic(c) \/ Fut(c) \/ HoldFut(c)
             /\ calls' = Append(calls, [m |-> c.m, x |-> c.x, buf |-> BufKind(c)])
        /\ UNCHANGED phase
\* the caller drops what it still holds (oldest first), then the connection: the implementation instance is dropped
Close == /\ phase = "calling"
         /\ LET RECURSIVE DropAll(_, _)
                DropAll(o, h) == IF h = <<>> THEN o
                                 ELSE DropAll([x \in DOMAIN o |-> IF x = Head(h) THEN [o[x] EXCEPT !.owner = "dropped", !.drops = o[x].drops + 1] ELSE o[x]], Tail(h))
                o1 == DropAll(objs, held)
            IN objs' = [x \in DOMAIN o1 |-> IF x = 1 THEN [o1[1] EXCEPT !.owner = "dropped", !.drops = o1[1].drops + 1] ELSE o1[x]]
         /\ held' = <<>> /\ phase' = "closed"
         /\ UNCHANGED <<calls, log, rets>>
Next == Call \/ Close
Spec == Init /\ [][Next]_vars

(* ------------------------------------------------------------------ *)
(* Properties                                                          *)
(* ------------------------------------------------------------------ *)
\* every owned object is dropped exactly once; nothing is dropped twice at any time
DropExactlyOnce == /\ \A id \in DOMAIN objs : objs[id].drops <= 1
                   /\ phase = "closed" => \A id \in DOMAIN objs : objs[id].drops = 1 /\ objs[id].owner = "dropped"
\* nothing the caller holds has been dropped (no use after drop)
HeldAlive == \A n \in 1..Len(held) : objs[held[n]].owner = "caller" /\ objs[held[n]].drops = 0
\* one result per call; a panic is a result like any other (the connection stays usable)
OneResultPerCall == Len(rets) = Len(calls)

Export == phase = "closed" =>
    PrintT(ToJson([calls |-> calls, log |-> log, rets |-> rets,
                   drops |-> [id \in 1..Cardinality(DOMAIN objs) |-> [kind |-> objs[id].kind, drops |-> objs[id].drops]]]))
=============================================================================

CONSTANT MaxCalls = 2
SPECIFICATION Spec
INVARIANT DropExactlyOnce HeldAlive OneResultPerCall Export
CHECK_DEADLOCK FALSE

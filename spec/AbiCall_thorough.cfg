CONSTANT MaxCalls = 3
SPECIFICATION Spec
INVARIANT DropExactlyOnce HeldAlive OneResultPerCall Export
CHECK_DEADLOCK FALSE

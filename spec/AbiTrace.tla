------------------------------ MODULE AbiTrace ------------------------------
(***************************************************************************)
(* impl -> spec validation for C11: every (caller version, implementation  *)
(* version, method, argument) of a created connection is recorded with the *)
(* REAL by-reference decision (AbiConnection::get_arg_passable_by_ref) and *)
(* the REAL native schemas of both sides; the decision must imply that the *)
(* two layouts are provably identical (Schema!SameLayout).                 *)
(***************************************************************************)
EXTENDS Schema, Json, IOUtils

Obs == ndJsonDeserialize(IOEnv.OBS)
Judge(o) == IF o.passable /\ ~SameLayout(o.sa, o.sb) THEN "passed-by-reference-without-identical-layout"
            ELSE IF o.passable THEN "ok-by-reference" ELSE "ok-serialized"
VARIABLES idx, phase, verdict
vars == <<idx, phase, verdict>>
Init == idx \in 1..Len(Obs) /\ phase = "pending" /\ verdict = "pending"
Step == phase = "pending" /\ phase' = "judged" /\ idx' = idx /\ verdict' = Judge(Obs[idx])
Spec == Init /\ [][Step]_vars
Report == phase = "judged" => PrintT(ToJson([i |-> idx, verdict |-> verdict]))
=============================================================================

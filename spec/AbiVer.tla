------------------------------- MODULE AbiVer -------------------------------
(***************************************************************************)
(* C10: a caller built against version i of an interface and an            *)
(* implementation built against version j.                                 *)
(*                                                                         *)
(* Protocol (one action per step of the real exchange):                    *)
(*   InterrogateVersion   effective := min(i, j)                           *)
(*   InterrogateMethods   the implementation's native and effective        *)
(*                        definitions travel to the caller                 *)
(*   Analyze              methods matched BY NAME; argument count and the  *)
(*                        effective schemas of every argument and of the   *)
(*                        return value compared; connect Ok / Err          *)
(*   CallBegin / SerArgs  arguments encoded at the effective version with  *)
(*                        the CALLER's definition                          *)
(*   Entry / DeserArgs    decoded with the IMPLEMENTATION's definition     *)
(*   Invoke               the implementation observes them, returns r      *)
(*   SerRet / Receive     r encoded at the effective version with the      *)
(*                        implementation's definition, decoded with the    *)
(*                        caller's                                         *)
(* By-reference path: an argument passed as &T travels as a raw pointer    *)
(* when the two NATIVE layouts are judged identical (ByRefOk); the         *)
(* implementation then reads the caller's memory AS ITS OWN type           *)
(* (Reinterpret).  Modelled for repr(C) structs of primitives, whose       *)
(* layout is defined by the language; other types travel serialized in the *)
(* model (what the real code decides for them is validated by AbiTrace).   *)
(* The meaning oracles are EvoOps!Down and EvoOps!Load.                    *)
(***************************************************************************)
EXTENDS EvoOps, Schema, Json, SequencesExt

CONSTANTS Tier,
          NameBlind   \* FALSE: the by-reference rule compares field identity (the code since fix 134a7b4);
                      \* TRUE : the rule before that fix -- TLC then finds the F23 counterexample (AbiVer_nameblind.cfg)
NV == 2      \* interface versions 0..NV

(* ------------------------------------------------------------------ *)
(* Data-type histories used in signatures                              *)
(* ------------------------------------------------------------------ *)
NoAs == P("unit")
AAdd(f)     == FA(f, INF, "no", "default", FALSE, 1, 0, NoAs)
ARem(f, to) == FA(f, to, "abi", "default", FALSE, 1, 0, NoAs)
U8 == P("u8")  U16 == P("u16")  U32 == P("u32")
HAdd    == StructA("C", <<U8, U16>>, <<Plain, AAdd(1)>>)                       \* field appended at 1
HAddMid == StructA("Rust", <<U16, U8>>, <<AAdd(1), Plain>>)                    \* field added BEFORE an old one
HRem    == StructA("C", <<U8, U32, U16>>, <<Plain, ARem(0, 0), AAdd(2)>>)      \* removed after 0, another added at 2
HEnum   == Enum("", <<Var(0, <<>>), Var(0, <<U8>>), Var(1, <<>>)>>)            \* variant appended at 1
HNest   == Vec("Vec", HAdd)
Same    == Struct("C", <<U32, U32>>)                                           \* identical on both sides
HRem2   == StructA("C", <<U32, U32, U32>>, <<ARem(0, 1), Plain, AAdd(1)>>)    \* packed; first field removed after 1, last added at 1 (< removal)
HPad    == StructA("C", <<U32, U16, U16>>, <<Plain, Plain, AAdd(1)>>)          \* the new field occupies what was tail padding: same size, same old offsets
HRemR   == StructA("C", <<U32, U32, U32>>, <<Plain, ARem(0, 0), AAdd(1)>>)     \* a removed field and an added one take the same place in memory
HEnumR  == Enum("u8", <<Var(0, <<U8>>), Var(0, <<U8>>), Var(1, <<U8>>)>>)       \* repr(u8); gains a variant of the same size at 1

\* method: [name, from, to, args, ret, refs (argument indices passed by reference)]
\*         chg: version from which argument 1 has the incompatible type chgty (0 = never)
\*         kind: "plain", or a method through which the payload type travels INSIDE a nested exported interface:
\*               "sink"  fn m(&self, s: &mut dyn Sink, x: T) -> T   with  trait Sink { fn put(&mut self, r: T) -> T }
\*               "fn"    fn m(&self, f: &dyn Fn(T) -> T, x: T) -> T
\*               the implementation hands x to the caller's object / closure and returns what comes back
\*               "fut"   fn m(&self, x: T) -> Pin<Box<dyn Future<Output = T>>>   the call returns a boxed future (a nested trait object of
\*                       the implementation); the value crosses the boundary when the caller POLLS it, again at the effective version
M(name, from, to, args, ret, refs) == [name |-> name, from |-> from, to |-> to, args |-> args, ret |-> ret, refs |-> refs,
                                       chg |-> 0, chgty |-> U8, kind |-> "plain"]
MN(name, kind, ty) == [M(name, 0, INF, <<ty>>, ty, {}) EXCEPT !.kind = kind]
FamilyA == << M("add", 0, INF, <<U32, U32>>, U32, {}),
              M("echo", 0, INF, <<HAdd>>, HAdd, {}),
              M("mid", 0, INF, <<HAddMid>>, HAddMid, {}),
              M("rem", 0, INF, <<HRem, U8>>, HRem, {}),
              M("en", 0, INF, <<HEnum>>, HEnum, {}),
              M("text", 0, INF, <<Str, HNest>>, Vec("Vec", U16), {}),
              M("newer", 1, INF, <<U8>>, U8, {}),
              M("older", 0, 0, <<U8>>, U8, {}),
              M("byref", 0, INF, <<HAdd>>, U16, {1}),
              M("sameref", 0, INF, <<Same, U8>>, U32, {1}),
              M("enref", 0, INF, <<HEnumR>>, U8, {1}),
              M("rem2", 0, INF, <<HRem2>>, HRem2, {}),
              M("padref", 0, INF, <<HPad>>, U16, {1}),
              M("remref", 0, INF, <<HRemR>>, U32, {1}),
              M("resm", 0, INF, <<U8>>, Res(HAdd, Str), {}),               \* Result with an evolving Ok type
              M("optm", 0, INF, <<Opt(HAdd)>>, Opt(HRem), {}),            \* Option of evolving types, both directions
              M("vecref", 0, INF, <<HNest>>, U16, {1}),                   \* a Vec of an evolving struct passed by reference
              MN("sink", "sink", HAdd), MN("sinkmid", "sink", HAddMid), MN("viafn", "fn", HAdd), MN("viafnrem", "fn", HRem),
              MN("later", "fut", HAdd), MN("laterrem", "fut", HRem), MN("latermid", "fut", HAddMid) >>
FamilyB == << M("add", 0, INF, <<U32, U32>>, U32, {}),
              [M("changed", 0, INF, <<U32>>, U8, {}) EXCEPT !.chg = 2, !.chgty = Str],
              [M("count", 0, INF, <<U8>>, U8, {}) EXCEPT !.chg = 1, !.chgty = Tup(<<U8, U8>>)] >>
Families == <<FamilyA, FamilyB>>

\* the signature of method m in the interface source at version i
ArgAt(m, k, i) == IF k = 1 /\ m.chg > 0 /\ i >= m.chg THEN m.chgty ELSE DefAt(m.args[k], i)
ArgsAt(m, i) == [k \in 1..Len(m.args) |-> ArgAt(m, k, i)]
RetAt(m, i) == DefAt(m.ret, i)
Alive(m, i) == m.from <= i /\ i <= m.to
MethodsAt(fam, i) == SelectSeq(Families[fam], LAMBDA m : Alive(m, i))
Find(ms, name) == LET hits == SelectSeq(ms, LAMBDA m : m.name = name) IN IF hits = <<>> THEN <<>> ELSE <<hits[1]>>

\* effective definitions: each side describes ITS types at the effective version
Compatible(m, i, j, eff) ==
    /\ Len(ArgsAt(m, i)) = Len(ArgsAt(m, j))
    /\ \A k \in 1..Len(m.args) : ~Diff(SchemaOf(ArgAt(m, k, i), eff), SchemaOf(ArgAt(m, k, j), eff))
    /\ ~Diff(SchemaOf(RetAt(m, i), eff), SchemaOf(RetAt(m, j), eff))
ConnectOk(fam, i, j) ==
    LET eff == IF i < j THEN i ELSE j IN
    \A n \in 1..Len(MethodsAt(fam, i)) :
        LET m == MethodsAt(fam, i)[n] IN
        Find(MethodsAt(fam, j), m.name) = <<>> \/ Compatible(m, i, j, eff)

(* ------------------------------------------------------------------ *)
(* Memory of a repr(C) struct of primitives in the program at version v *)
(* ------------------------------------------------------------------ *)
FlatC(t) == t.k = "struct" /\ t.s = "C" /\ \A k \in 1..Len(t.ts) : t.ts[k].k = "p" /\ ~HasAs(t.fa[k])
\* D-field indices that occupy memory at v: declared by v and not (yet) replaced by the zero-sized AbiRemoved marker
MemIdx(t, v) == SelectSeq(Kept(t.fa, v), LAMBDA k : t.fa[k].to >= v)
AlignUp(x, a) == ((x + a - 1) \div a) * a
WidthOf(t, k) == PrimWidth(t.ts[k].s)
RECURSIVE OffsetsC(_, _, _, _)
OffsetsC(t, idx, n, at) ==        \* offsets of the first n memory fields, C layout rule
    IF n = 0 THEN <<>>
    ELSE LET prev == OffsetsC(t, idx, n - 1, at)
             start == IF n = 1 THEN 0 ELSE prev[n - 1] + WidthOf(t, idx[n - 1]) IN
         Append(prev, AlignUp(start, WidthOf(t, idx[n])))
MaxW(t, idx) == IF idx = <<>> THEN 1 ELSE CHOOSE w \in {WidthOf(t, idx[n]) : n \in 1..Len(idx)} : \A n \in 1..Len(idx) : WidthOf(t, idx[n]) <= w
\* native layout: [fields: <<[id, ty, off]>>, size, align]   (id = index of the field in D = its identity / name)
NativeLayout(t, v) ==
    LET idx == MemIdx(t, v)
        offs == OffsetsC(t, idx, Len(idx), 0)
        al == MaxW(t, idx)
        end == IF idx = <<>> THEN 0 ELSE offs[Len(idx)] + WidthOf(t, idx[Len(idx)]) IN
    [fields |-> [n \in 1..Len(idx) |-> [id |-> idx[n], ty |-> t.ts[idx[n]].s, off |-> offs[n]]],
     size |-> AlignUp(end, al), align |-> al]
\* the decision of arg_layout_compatible / Schema::layout_compatible on two such layouts
LayoutRule(a, b) ==
    /\ Len(a.fields) = Len(b.fields) /\ a.size = b.size /\ a.align = b.align
    /\ \A n \in 1..Len(a.fields) : /\ a.fields[n].off = b.fields[n].off /\ a.fields[n].ty = b.fields[n].ty
                                    /\ (NameBlind \/ a.fields[n].id = b.fields[n].id)
ByRefOk(m, k, vi, vj) ==
    /\ k \in m.refs /\ FlatC(m.args[k]) /\ ~(k = 1 /\ m.chg > 0)
    /\ LayoutRule(NativeLayout(m.args[k], vi), NativeLayout(m.args[k], vj))
\* what the implementation (program vj) sees when it reads the memory of a value of program vi as its own type:
\* its n-th memory field is whatever lies at the n-th place of the caller's memory; zero-sized markers hold nothing
Reinterpret(t, vi, vj, v) ==
    LET ki == Kept(t.fa, vi)  kj == Kept(t.fa, vj)  mi == MemIdx(t, vi)  mj == MemIdx(t, vj)
        PosIn(seq, x) == CHOOSE n \in 1..Len(seq) : seq[n] = x IN
    L([q \in 1..Len(kj) |->
         IF \E n \in 1..Len(mj) : mj[n] = kj[q]
         THEN v.vs[PosIn(ki, mi[PosIn(mj, kj[q])])]
         ELSE Unit])

VARIABLES fam, i, j, pc, eff, connected, mname, args, seen, ret, got, outcome,
          nseen     \* what the caller's nested object / closure observed (methods of kind "sink" / "fn")
vars == <<fam, i, j, pc, eff, connected, mname, args, seen, ret, got, outcome, nseen>>

Init ==
    /\ fam \in 1..Len(Families) /\ i \in 0..NV /\ j \in 0..NV
    /\ pc = "start" /\ eff = -1 /\ connected = "unknown" /\ mname = "" /\ args = <<>> /\ seen = <<>>
    /\ ret = Unit /\ got = Unit /\ outcome = "none" /\ nseen = Unit

InterrogateVersion ==
    /\ pc = "start" /\ pc' = "versions" /\ eff' = (IF i < j THEN i ELSE j)
    /\ UNCHANGED <<fam, i, j, connected, mname, args, seen, ret, got, outcome, nseen>>
InterrogateMethods ==
    /\ pc = "versions" /\ pc' = "defs"
    /\ UNCHANGED <<fam, i, j, eff, connected, mname, args, seen, ret, got, outcome, nseen>>
Analyze ==
    /\ pc = "defs"
    /\ connected' = (IF ConnectOk(fam, i, j) THEN "ok" ELSE "err")
    /\ pc' = (IF ConnectOk(fam, i, j) THEN "ready" ELSE "done")
    /\ UNCHANGED <<fam, i, j, eff, mname, args, seen, ret, got, outcome, nseen>>

\* values the caller can pass: every enum in them must exist at the effective version (documented panic otherwise)
ValSetOf(t) == LET vals == Vals(t) IN {vals[n] : n \in 1..(IF Len(vals) > 3 THEN 3 ELSE Len(vals))}
Passable(t, e) == {x \in ValSetOf(t) : Writable(t, x, e)}

CallBegin ==
    /\ pc = "ready"
    /\ \E n \in 1..Len(MethodsAt(fam, i)) :
         LET m == MethodsAt(fam, i)[n] IN
         /\ mname' = m.name
         /\ \E pick \in 1..3 :
              args' = [k \in 1..Len(m.args) |->
                         LET ch == SetToSeq(Passable(ArgAt(m, k, i), eff)) IN ch[((pick + k - 2) % Len(ch)) + 1]]
    /\ pc' = "called"
    /\ UNCHANGED <<fam, i, j, eff, connected, seen, ret, got, outcome, nseen>>

Callee == Find(MethodsAt(fam, j), mname)
Caller == Find(MethodsAt(fam, i), mname)[1]
\* the implementation lacks the method: clear panic at call time
Missing ==
    /\ pc = "called" /\ Callee = <<>>
    /\ outcome' = "panic-missing-method" /\ pc' = "done"
    /\ UNCHANGED <<fam, i, j, eff, connected, mname, args, seen, ret, got, nseen>>
\* SerArgs . Entry . DeserArgs : bytes at the effective version, caller's definition -> implementation's definition
Transfer ==
    /\ pc = "called" /\ Callee # <<>>
    /\ seen' = [k \in 1..Len(args) |->
                  IF ByRefOk(Caller, k, i, j)
                  THEN Reinterpret(Caller.args[k], i, j, args[k])           \* raw pointer: the caller's memory read as the callee's type
                  ELSE Dec(ArgAt(Callee[1], k, j), Enc(ArgAt(Caller, k, i), args[k], eff), 0, eff).v]
    /\ pc' = "invoking"
    /\ UNCHANGED <<fam, i, j, eff, connected, mname, args, ret, got, outcome, nseen>>
\* the implementation returns one of its values (which must be expressible at the effective version)
Invoke ==
    /\ pc = "invoking" /\ Caller.kind \in {"plain", "fut"}
    /\ \E r \in Passable(RetAt(Callee[1], j), eff) : ret' = r
    /\ pc' = IF Caller.kind = "fut" THEN "future" ELSE "returning"      \* (a future: nothing has been transferred back yet)
    /\ UNCHANGED <<fam, i, j, eff, connected, mname, args, seen, got, outcome, nseen>>
\* the implementation calls back into the caller's object / closure with what it received, and returns what comes back:
\* two more transfers at the effective version, in the opposite and then again in the forward direction
InvokeNested ==
    /\ pc = "invoking" /\ Caller.kind \in {"sink", "fn"}
    /\ LET tc == ArgAt(Caller, 1, i)  ti == ArgAt(Callee[1], 1, j)
           toCaller == Dec(tc, Enc(ti, seen[1], eff), 0, eff).v
           back == Dec(ti, Enc(tc, toCaller, eff), 0, eff).v IN
       /\ nseen' = toCaller
       /\ ret' = back
    /\ pc' = "returning"
    /\ UNCHANGED <<fam, i, j, eff, connected, mname, args, seen, got, outcome>>
\* the caller polls the boxed future it was handed: a call of the implementation's future object through its own (helper) interface
Poll ==
    /\ pc = "future"
    /\ pc' = "returning"
    /\ UNCHANGED <<fam, i, j, eff, connected, mname, args, seen, ret, got, outcome, nseen>>
\* SerRet . Receive
Return ==
    /\ pc = "returning"
    /\ got' = Dec(RetAt(Caller, i), Enc(RetAt(Callee[1], j), ret, eff), 0, eff).v
    /\ outcome' = "returned" /\ pc' = "done"
    /\ UNCHANGED <<fam, i, j, eff, connected, mname, args, seen, ret, nseen>>
Next == InterrogateVersion \/ InterrogateMethods \/ Analyze \/ CallBegin \/ Missing \/ Transfer \/ Invoke \/ InvokeNested \/ Poll \/ Return
Spec == Init /\ [][Next]_vars

(* ------------------------------------------------------------------ *)
(* Properties                                                          *)
(* ------------------------------------------------------------------ *)
EffectiveIsMin == eff >= 0 => eff = (IF i < j THEN i ELSE j)
\* the receiver sees retained fields unchanged and fields the sender lacks filled with their defaults
ArgTransparent ==
    pc \in {"invoking", "returning"} \/ outcome = "returned" =>
        \A k \in 1..Len(args) :
            \/ Caller.chg > 0 /\ k = 1                      \* (incompatible family: only reached when both sides agree)
            \/ seen[k] = Load(Caller.args[k], eff, j, Down(Caller.args[k], i, eff, args[k]))
RetTransparent ==
    outcome = "returned" => got = Load(Caller.ret, eff, i, Down(Caller.ret, j, eff, ret))
\* methods that exist on one side only never prevent connecting; documented evolution always connects
MissingMethodConnects == (fam = 1 /\ connected # "unknown") => connected = "ok"
\* incompatible signature changes are rejected when the connection is created
IncompatibleRejected ==
    (fam = 2 /\ connected # "unknown") =>
        (connected = "err" <=> \E n \in 1..Len(Families[2]) :
                                   LET m == Families[2][n] IN m.chg > 0 /\ ((i >= m.chg) # (j >= m.chg)))
\* nested interfaces and closures: every hop is a transfer at the effective version (Move), so that equal versions give identity
Move(D, a, b, v) == LET e == IF a < b THEN a ELSE b IN Load(D, e, b, Down(D, a, e, v))
NestedTransparent ==
    (outcome = "returned" /\ Caller.kind \in {"sink", "fn"}) =>
        /\ nseen = Move(Caller.args[1], j, i, seen[1])
        /\ ret = Move(Caller.args[1], i, j, nseen)
        /\ (i = j => nseen = args[1] /\ got = args[1])
MissingPanicsAtCall == outcome = "panic-missing-method" => connected = "ok" /\ Callee = <<>>
\* the by-reference path is exercised: some connection passes a struct by pointer, some must serialize it
ByRefTaken == ~(pc = "invoking" /\ \E k \in 1..Len(args) : ByRefOk(Caller, k, i, j) /\ i # j)      \* (expected to be VIOLATED: witness)

Sig(m, v) == [name |-> m.name, args |-> ArgsAt(m, v), ret |-> RetAt(m, v), refs |-> SetToSeq(m.refs), kind |-> m.kind]
Export ==
    /\ (pc = "start" /\ i = 0 /\ j = 0) =>
          PrintT(ToJson([kind |-> "family", fam |-> fam,
                         versions |-> [v \in 1..(NV + 1) |-> [n \in 1..Len(MethodsAt(fam, v - 1)) |-> Sig(MethodsAt(fam, v - 1)[n], v - 1)]],
                         ts |-> Flat([v \in 1..(NV + 1) |-> Flat([n \in 1..Len(MethodsAt(fam, v - 1)) |->
                                   Append(ArgsAt(MethodsAt(fam, v - 1)[n], v - 1), RetAt(MethodsAt(fam, v - 1)[n], v - 1))])])]))
    /\ (pc = "done") =>
          PrintT(ToJson([kind |-> "call", fam |-> fam, i |-> i, j |-> j, eff |-> eff, connected |-> connected, method |-> mname,
                         args |-> args, seen |-> seen, ret |-> ret, got |-> got, outcome |-> outcome,
                         mkind |-> IF mname = "" THEN "plain" ELSE Caller.kind, nseen |-> nseen]))
=============================================================================

\* NEGATIVE configuration (bin/selftest.py): the by-reference rule as it was before fix 134a7b4 (field identity ignored).
\* TLC must report ArgTransparent violated: the F23 counterexample is a behaviour of the specification.
CONSTANT NameBlind = TRUE
CONSTANT Tier = "quick"
SPECIFICATION Spec
INVARIANT ArgTransparent
CHECK_DEADLOCK FALSE

CONSTANT NameBlind = FALSE
CONSTANT Tier = "thorough"
SPECIFICATION Spec
INVARIANT EffectiveIsMin ArgTransparent RetTransparent MissingMethodConnects IncompatibleRejected MissingPanicsAtCall NestedTransparent Export
CHECK_DEADLOCK FALSE

-------------------------------- MODULE Cache --------------------------------
(***************************************************************************)
(* C16: connections are created and used from many threads at once.        *)
(*                                                                         *)
(* The three global caches of savefile-abi and their mutexes, with the     *)
(* exact lock scopes of the code:                                          *)
(*   new_internal     T (templates) is held from the lookup, through the   *)
(*                    whole negotiation (InterrogateVersion,               *)
(*                    InterrogateMethods, analysis, insert) AND through    *)
(*                    CreateInstance, until the function returns           *)
(*   get_symbol_for   E (entry points) then L (libraries), both held until *)
(*                    the function returns; T is taken only afterwards     *)
(*   calls            take no lock (the template is copied into the        *)
(*                    connection)                                          *)
(* Every label below is a linearisation point at which the instrumented    *)
(* code emits an event while holding the lock (hooks, cfg                  *)
(* avl_savefile_verif); CacheTrace.tla validates recorded traces.          *)
(*                                                                         *)
(* Thread programs: sequences of                                           *)
(*   [op |-> "create", k]   from_boxed_trait of interface k                *)
(*   [op |-> "load", k]     load_shared_library of interface k             *)
(*   [op |-> "call", k]     a call on a connection of k                    *)
(*   [op |-> "nested", k, k2] a call on k whose argument (boxed trait,     *)
(*                          closure) makes the implementation create a     *)
(*                          connection of k2 while the call is in progress *)
(***************************************************************************)
EXTENDS Naturals, Sequences, FiniteSets, TLC

CONSTANTS Threads, Keys, Programs     \* Programs: the set of programs a thread may run
NoThread == 0

VARIABLES prog,      \* thread -> remaining program
          pc,        \* thread -> control point
          key,       \* thread -> key of the connection being created
          ret,       \* thread -> where to continue after the current creation ("next" | "incall")
          lockT, lockE, lockL,    \* owner of each mutex (NoThread = free)
          templates, \* keys whose template is cached
          entries,   \* keys whose entry point is cached (get_symbol_for)
          negotiated,\* key -> number of negotiations performed
          conns      \* thread -> set of keys it holds a connection for
vars == <<prog, pc, key, ret, lockT, lockE, lockL, templates, entries, negotiated, conns>>

Init == /\ prog \in [Threads -> Programs]
        /\ pc = [t \in Threads |-> "idle"] /\ key = [t \in Threads |-> 0] /\ ret = [t \in Threads |-> "next"]
        /\ lockT = NoThread /\ lockE = NoThread /\ lockL = NoThread
        /\ templates = {} /\ entries = {} /\ negotiated = [k \in Keys |-> 0]
        /\ conns = [t \in Threads |-> {}]

Op(t) == Head(prog[t])
\* ---- program dispatch ---------------------------------------------------------------------------
Start(t) ==
    /\ pc[t] = "idle" /\ prog[t] # <<>>
    /\ CASE Op(t).op = "create" -> pc' = [pc EXCEPT ![t] = "wantT"] /\ key' = [key EXCEPT ![t] = Op(t).k] /\ ret' = [ret EXCEPT ![t] = "next"]
         [] Op(t).op = "load"   -> pc' = [pc EXCEPT ![t] = "wantE"] /\ key' = [key EXCEPT ![t] = Op(t).k] /\ ret' = [ret EXCEPT ![t] = "next"]
         [] Op(t).op = "call"   -> pc' = [pc EXCEPT ![t] = "calling"] /\ UNCHANGED <<key, ret>>
         [] Op(t).op = "nested" -> pc' = [pc EXCEPT ![t] = "wantT"] /\ key' = [key EXCEPT ![t] = Op(t).k2] /\ ret' = [ret EXCEPT ![t] = "incall"]
    /\ (Op(t).op \in {"call", "nested"} => Op(t).k \in conns[t])
    /\ UNCHANGED <<prog, lockT, lockE, lockL, templates, entries, negotiated, conns>>
\* ---- get_symbol_for -----------------------------------------------------------------------------
LockE(t) == /\ pc[t] = "wantE" /\ lockE = NoThread /\ lockE' = t /\ pc' = [pc EXCEPT ![t] = "wantL"]
            /\ UNCHANGED <<prog, key, ret, lockT, lockL, templates, entries, negotiated, conns>>
LockL(t) == /\ pc[t] = "wantL" /\ lockL = NoThread /\ lockL' = t /\ pc' = [pc EXCEPT ![t] = "symbol"]
            /\ UNCHANGED <<prog, key, ret, lockT, lockE, templates, entries, negotiated, conns>>
Symbol(t) == /\ pc[t] = "symbol" /\ entries' = entries \cup {key[t]} /\ pc' = [pc EXCEPT ![t] = "unlockL"]
             /\ UNCHANGED <<prog, key, ret, lockT, lockE, lockL, templates, negotiated, conns>>
UnlockL(t) == /\ pc[t] = "unlockL" /\ lockL' = NoThread /\ pc' = [pc EXCEPT ![t] = "unlockE"]
              /\ UNCHANGED <<prog, key, ret, lockT, lockE, templates, entries, negotiated, conns>>
UnlockE(t) == /\ pc[t] = "unlockE" /\ lockE' = NoThread /\ pc' = [pc EXCEPT ![t] = "wantT"]
              /\ UNCHANGED <<prog, key, ret, lockT, lockL, templates, entries, negotiated, conns>>
\* ---- new_internal -------------------------------------------------------------------------------
LockT(t) == /\ pc[t] = "wantT" /\ lockT = NoThread /\ lockT' = t /\ pc' = [pc EXCEPT ![t] = "lookup"]
            /\ UNCHANGED <<prog, key, ret, lockE, lockL, templates, entries, negotiated, conns>>
Hit(t)  == /\ pc[t] = "lookup" /\ key[t] \in templates /\ pc' = [pc EXCEPT ![t] = "found"]
           /\ UNCHANGED <<prog, key, ret, lockT, lockE, lockL, templates, entries, negotiated, conns>>
Miss(t) == /\ pc[t] = "lookup" /\ key[t] \notin templates /\ pc' = [pc EXCEPT ![t] = "iv"]
           /\ UNCHANGED <<prog, key, ret, lockT, lockE, lockL, templates, entries, negotiated, conns>>
InterrogateVersion(t) == /\ pc[t] = "iv" /\ pc' = [pc EXCEPT ![t] = "im"]
                         /\ UNCHANGED <<prog, key, ret, lockT, lockE, lockL, templates, entries, negotiated, conns>>
InterrogateMethods(t) == /\ pc[t] = "im" /\ pc' = [pc EXCEPT ![t] = "insert"]
                         /\ UNCHANGED <<prog, key, ret, lockT, lockE, lockL, templates, entries, negotiated, conns>>
Insert(t) == /\ pc[t] = "insert"
             /\ templates' = templates \cup {key[t]}
             /\ negotiated' = [negotiated EXCEPT ![key[t]] = @ + 1]
             /\ pc' = [pc EXCEPT ![t] = "found"]
             /\ UNCHANGED <<prog, key, ret, lockT, lockE, lockL, entries, conns>>
\* (CreateInstance happens here, still under T, when the connection was opened by load_shared_library)
UnlockT(t) == /\ pc[t] = "found" /\ lockT = t /\ lockT' = NoThread
              /\ conns' = [conns EXCEPT ![t] = @ \cup {key[t]}]
              /\ pc' = [pc EXCEPT ![t] = IF ret[t] = "incall" THEN "calling" ELSE "opdone"]
              /\ UNCHANGED <<prog, key, ret, lockE, lockL, templates, entries, negotiated>>
\* ---- calls --------------------------------------------------------------------------------------
CallEnd(t) == /\ pc[t] = "calling" /\ pc' = [pc EXCEPT ![t] = "opdone"]
              /\ UNCHANGED <<prog, key, ret, lockT, lockE, lockL, templates, entries, negotiated, conns>>
OpDone(t) == /\ pc[t] = "opdone" /\ prog' = [prog EXCEPT ![t] = Tail(@)] /\ pc' = [pc EXCEPT ![t] = "idle"]
             /\ UNCHANGED <<key, ret, lockT, lockE, lockL, templates, entries, negotiated, conns>>

Step(t) == Start(t) \/ LockE(t) \/ LockL(t) \/ Symbol(t) \/ UnlockL(t) \/ UnlockE(t) \/ LockT(t) \/ Hit(t) \/ Miss(t)
           \/ InterrogateVersion(t) \/ InterrogateMethods(t) \/ Insert(t) \/ UnlockT(t) \/ CallEnd(t) \/ OpDone(t)
AllDone == \A t \in Threads : prog[t] = <<>> /\ pc[t] = "idle"
Next == (\E t \in Threads : Step(t)) \/ (AllDone /\ UNCHANGED vars)
Spec == Init /\ [][Next]_vars /\ \A t \in Threads : WF_vars(Step(t))

(* ------------------------------------------------------------------ *)
(* Properties                                                          *)
(* ------------------------------------------------------------------ *)
\* each interface is negotiated at most once, however many threads race for its first use
OneNegotiationPerKey == \A k \in Keys : negotiated[k] <= 1
\* the cache only ever holds what was negotiated
TemplatesNegotiated == \A k \in Keys : (k \in templates) <=> (negotiated[k] = 1)
\* lock order: E before L, and T is never requested while E or L is held
LockOrder == /\ \A t \in Threads : pc[t] = "wantL" => lockE = t
             /\ \A t \in Threads : pc[t] = "wantT" => lockE # t /\ lockL # t
             /\ (lockL # NoThread => lockE = lockL)
\* the result equals that of performing the operations one after another: exactly the keys created are cached
ResultsEqualSequential ==
    AllDone => templates = {k \in Keys : \E t \in Threads : k \in conns[t]}
\* no deadlock (TLC's deadlock check; AllDone stutters) and every operation completes
EveryOpCompletes == <>AllDone
=============================================================================

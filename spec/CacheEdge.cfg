CONSTANTS
  Threads = {1, 2}
  Keys = {1, 2, 3}
  Programs <- SProgs
SPECIFICATION ESpec
INVARIANT OneNegotiationPerKey LockOrder EInitOut
ACTION_CONSTRAINT EEdgeOut
CHECK_DEADLOCK FALSE

------------------------------ MODULE CacheEdge ------------------------------
(***************************************************************************)
(* C16, spec -> impl, transition coverage.                                 *)
(*                                                                         *)
(* The same labelled steps as CacheSched.tla, but the history variable     *)
(* holds only the LAST step, so that TLC can explore the model             *)
(* exhaustively and print its complete labelled transition graph:          *)
(*   one "init" line per initial state (with the thread programs),         *)
(*   one "edge" line per transition  a --(t, l)--> b .                     *)
(* bin/checks.py builds from this graph a set of complete behaviours that  *)
(* together take EVERY transition of the model at least once, and forces   *)
(* each of them on the real threads (abi sched): every transition of the   *)
(* 2-thread model is then known to be a step the real code can take in     *)
(* that state, instead of the transitions a random sample happens to hit.  *)
(***************************************************************************)
EXTENDS CacheSched, TLC

Key(v, p) == ToString(<<v, p>>)
RecLast(t, l) == sched' = <<[t |-> t, l |-> l]>> /\ prog0' = prog0
ENext == \E t \in Threads : LStep(t, RecLast)
ESpec == SInit /\ [][ENext]_svars

EInitOut == (sched = <<>>) =>
    PrintT(ToJson([kind |-> "init", a |-> Key(vars, prog0), progs |-> [t \in 1..Cardinality(Threads) |-> prog0[t]]]))
EEdgeOut == PrintT(ToJson([kind |-> "edge", a |-> Key(vars, prog0), b |-> Key(vars', prog0'),
                           t |-> sched'[1].t, l |-> sched'[1].l, done |-> AllDone']))
=============================================================================

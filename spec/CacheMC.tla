------------------------------- MODULE CacheMC -------------------------------
EXTENDS Cache
O(op, k, k2) == [op |-> op, k |-> k, k2 |-> k2]
Threads2 == {1, 2}
Threads3 == {1, 2, 3}
KeysQ == {1, 2, 3}
\* first use of the same interface, of different interfaces, cached creation, calls, calls that create nested connections, loading
ProgramsQ == { <<O("create", 1, 0), O("call", 1, 0)>>,
               <<O("create", 1, 0), O("nested", 1, 2)>>,
               <<O("create", 2, 0), O("create", 1, 0)>>,
               <<O("load", 3, 0), O("call", 3, 0)>>,
               <<O("create", 1, 0), O("create", 1, 0), O("nested", 1, 3)>>,
               <<O("load", 3, 0), O("nested", 3, 1)>> }
ProgramsT == { <<O("create", 1, 0), O("call", 1, 0)>>, <<O("create", 1, 0), O("nested", 1, 2)>>, <<O("create", 2, 0), O("create", 1, 0)>>,
               <<O("load", 3, 0), O("nested", 3, 2)>> }
=============================================================================

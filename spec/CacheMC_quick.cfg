CONSTANTS
  Threads <- Threads2
  Keys <- KeysQ
  Programs <- ProgramsQ
SPECIFICATION Spec
INVARIANT OneNegotiationPerKey TemplatesNegotiated LockOrder ResultsEqualSequential
PROPERTY EveryOpCompletes

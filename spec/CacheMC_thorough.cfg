CONSTANTS
  Threads <- Threads3
  Keys <- KeysQ
  Programs <- ProgramsT
SPECIFICATION Spec
INVARIANT OneNegotiationPerKey TemplatesNegotiated LockOrder ResultsEqualSequential
PROPERTY EveryOpCompletes

----------------------------- MODULE CacheSched -----------------------------
(***************************************************************************)
(* C16, spec -> impl: behaviours of Cache.tla as SCHEDULES that are forced *)
(* on the real threads.                                                    *)
(*                                                                         *)
(* Every step of Cache!Step(t) is recorded as [t, l] in the history        *)
(* variable sched; a finished behaviour is printed with the thread         *)
(* programs.  The harness (abi sched) runs the programs on real threads    *)
(* whose hooks are GATES: a thread may pass the hook of label l only when  *)
(* the next entry of the schedule is [its id, l]  (a thread about to       *)
(* request a mutex is held back until its Lock entry is next).  A schedule *)
(* the real code cannot follow -- a thread needs a step the model does not *)
(* allow next, or never arrives at the step the model says it takes -- is  *)
(* a conformance failure.                                                  *)
(*                                                                         *)
(* Programs use the operations the real interfaces offer:                  *)
(*   key 1  CallIface (from_boxed_trait)     key 2  Obj (from_boxed_trait, *)
(*   key 3  the cdylib plugin (load_shared_library)  and as the connection *)
(*   an implementation creates for a boxed trait object it receives)       *)
(***************************************************************************)
EXTENDS Cache, Json

VARIABLES sched, prog0
svars == <<vars, sched, prog0>>

O(op, k, k2) == [op |-> op, k |-> k, k2 |-> k2]
SProgs == { <<O("create", 1, 0), O("call", 1, 0)>>,
            <<O("create", 1, 0), O("nested", 1, 2)>>,
            <<O("create", 2, 0), O("create", 1, 0)>>,
            <<O("load", 3, 0), O("call", 3, 0)>>,
            <<O("create", 1, 0), O("create", 1, 0), O("nested", 1, 2)>>,
            <<O("load", 3, 0), O("load", 3, 0)>> }

SInit == Init /\ sched = <<>> /\ prog0 = prog
Rec(t, l) == sched' = Append(sched, [t |-> t, l |-> l]) /\ prog0' = prog0
\* every step of thread t with its label handed to the recorder R
LStep(t, R(_, _)) ==
    \/ (Start(t) /\ R(t, "Start"))
    \/ (LockE(t) /\ R(t, "LockE"))
    \/ (LockL(t) /\ R(t, "LockL"))
    \/ (Symbol(t) /\ R(t, "Symbol"))
    \/ (UnlockL(t) /\ R(t, "UnlockL"))
    \/ (UnlockE(t) /\ R(t, "UnlockE"))
    \/ (LockT(t) /\ R(t, "LockT"))
    \/ (Hit(t) /\ R(t, "Hit"))
    \/ (Miss(t) /\ R(t, "Miss"))
    \/ (InterrogateVersion(t) /\ R(t, "InterrogateVersion"))
    \/ (InterrogateMethods(t) /\ R(t, "InterrogateMethods"))
    \/ (Insert(t) /\ R(t, "Insert"))
    \/ (UnlockT(t) /\ R(t, "UnlockT"))
    \/ (CallEnd(t) /\ R(t, "CallEnd"))
    \/ (OpDone(t) /\ R(t, "OpDone"))
SStep(t) == LStep(t, Rec)
SNext == \E t \in Threads : SStep(t)
SSpec == SInit /\ [][SNext]_svars

SExport == AllDone => PrintT(ToJson([progs |-> [t \in 1..Cardinality(Threads) |-> prog0[t]], sched |-> sched]))
=============================================================================

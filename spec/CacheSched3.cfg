CONSTANTS
  Threads = {1, 2, 3}
  Keys = {1, 2, 3}
  Programs <- SProgs
SPECIFICATION SSpec
INVARIANT OneNegotiationPerKey LockOrder SExport
CHECK_DEADLOCK FALSE

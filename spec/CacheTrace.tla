----------------------------- MODULE CacheTrace -----------------------------
(***************************************************************************)
(* impl -> spec validation for C16.  An observation is one recorded run of *)
(* several real threads creating and using ABI connections: the events     *)
(* emitted by the hooks at the linearisation points (under the protecting  *)
(* mutex), totally ordered by a global sequence number taken under that    *)
(* mutex:   [t (thread), l (label), k (key)]                               *)
(* Walk replays the events through the actions of Cache.tla: every event   *)
(* must be enabled in the state reached so far.                            *)
(***************************************************************************)
EXTENDS Naturals, Sequences, FiniteSets, TLC, Json, IOUtils

Obs == ndJsonDeserialize(IOEnv.OBS)

\* state: lock owners, per-thread phase and key (functions as sequences indexed by thread), cached keys, negotiations
St(lt, le, ll, ph, ky, tm, neg, bad) ==
    [lt |-> lt, le |-> le, ll |-> ll, ph |-> ph, ky |-> ky, tm |-> tm, neg |-> neg, bad |-> bad]
Set(seq, i, x) == [seq EXCEPT ![i] = x]
Bad(s, why) == [s EXCEPT !.bad = why]

Apply(s, e) ==
    LET t == e.t  k == e.k  ph == s.ph[t] IN
    CASE e.l = "LockT" ->
            IF s.lt # 0 THEN Bad(s, "LockT while the template mutex is held by another thread")
            ELSE IF s.le = t \/ s.ll = t THEN Bad(s, "template mutex requested while holding the entry/library mutex")
            ELSE [s EXCEPT !.lt = t, !.ph = Set(s.ph, t, "lookup"), !.ky = Set(s.ky, t, k)]
      [] e.l = "Hit" ->
            IF s.lt # t \/ ph # "lookup" THEN Bad(s, "Hit outside the critical section")
            ELSE IF k \notin s.tm THEN Bad(s, "cache hit for a key that was never inserted")
            ELSE [s EXCEPT !.ph = Set(s.ph, t, "found")]
      [] e.l = "Miss" ->
            IF s.lt # t \/ ph # "lookup" THEN Bad(s, "Miss outside the critical section")
            ELSE IF k \in s.tm THEN Bad(s, "cache miss although the key is cached")
            ELSE [s EXCEPT !.ph = Set(s.ph, t, "iv")]
      [] e.l = "InterrogateVersion" ->
            IF s.lt # t \/ ph # "iv" THEN Bad(s, "InterrogateVersion out of order") ELSE [s EXCEPT !.ph = Set(s.ph, t, "im")]
      [] e.l = "InterrogateMethods" ->
            IF s.lt # t \/ ph # "im" THEN Bad(s, "InterrogateMethods out of order") ELSE [s EXCEPT !.ph = Set(s.ph, t, "insert")]
      [] e.l = "Insert" ->
            IF s.lt # t \/ ph # "insert" THEN Bad(s, "Insert out of order")
            ELSE IF k \in s.tm THEN Bad(s, "second negotiation of a cached key")
            ELSE [s EXCEPT !.tm = s.tm \cup {k}, !.ph = Set(s.ph, t, "found")]
      [] e.l = "CreateInstance" ->
            IF s.lt # t \/ ph # "found" THEN Bad(s, "CreateInstance out of order") ELSE s
      [] e.l = "UnlockT" ->
            \* (released from any phase: the negotiation may have failed with an error)
            IF s.lt # t THEN Bad(s, "UnlockT by a thread that does not hold the mutex")
            ELSE [s EXCEPT !.lt = 0, !.ph = Set(s.ph, t, "idle")]
      [] e.l = "LockE" ->
            IF s.le # 0 THEN Bad(s, "LockE while held") ELSE IF s.lt = t THEN Bad(s, "entry mutex requested while holding the template mutex")
            ELSE [s EXCEPT !.le = t]
      [] e.l = "LockL" ->
            IF s.ll # 0 THEN Bad(s, "LockL while held") ELSE IF s.le # t THEN Bad(s, "library mutex taken without the entry mutex (lock order)")
            ELSE [s EXCEPT !.ll = t]
      [] e.l = "UnlockL" -> IF s.ll # t THEN Bad(s, "UnlockL by a non-owner") ELSE [s EXCEPT !.ll = 0]
      [] e.l = "UnlockE" -> IF s.le # t THEN Bad(s, "UnlockE by a non-owner") ELSE IF s.ll = t THEN Bad(s, "entry mutex released before the library mutex")
                            ELSE [s EXCEPT !.le = 0]
      [] OTHER -> s      \* OpBegin / OpEnd markers carry no cache state

RECURSIVE Walk(_, _, _)
Walk(evs, i, s) == IF i > Len(evs) \/ s.bad # "" THEN s ELSE Walk(evs, i + 1, Apply(s, evs[i]))

Judge(o) ==
    LET s0 == St(0, 0, 0, [t \in 1..o.threads |-> "idle"], [t \in 1..o.threads |-> 0], {}, 0, "")
        s == Walk(o.events, 1, s0) IN
    IF s.bad # "" THEN s.bad
    ELSE IF s.lt # 0 \/ s.le # 0 \/ s.ll # 0 THEN "a mutex is still held at the end of the run"
    ELSE IF o.hung THEN "not all threads finished (deadlock / hang)"
    ELSE IF ~o.results_ok THEN "results differ from the sequential results"
    ELSE "ok"

VARIABLES idx, phase, verdict
vars == <<idx, phase, verdict>>
Init == idx \in 1..Len(Obs) /\ phase = "pending" /\ verdict = "pending"
Step == phase = "pending" /\ phase' = "judged" /\ idx' = idx /\ verdict' = Judge(Obs[idx])
Spec == Init /\ [][Step]_vars
Report == (phase = "judged" /\ verdict # "ok") => PrintT(ToJson([i |-> idx, verdict |-> verdict]))
=============================================================================

SPECIFICATION CSpec
INVARIANT GateFirst CExport
CHECK_DEADLOCK FALSE

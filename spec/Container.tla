------------------------------ MODULE Container ------------------------------
(***************************************************************************)
(* C05 (header clause), C07 (header level): load_impl as a state machine   *)
(* over an abstract file                                                   *)
(*     magic, library format version, data version, compression flag,      *)
(*     [schema section -> comparison], payload                             *)
(* with the history variable `interpreted` (set by the first payload       *)
(* step).  GateFirst: nothing is interpreted unless every gate passed.     *)
(***************************************************************************)
EXTENDS Naturals, TLC, Json

CURRENT_LIB == 2
\* abstract file: what each header field holds, whether a schema section is present and whether it matches
Files == [magic : BOOLEAN, lib : 0..3, dataver : 0..3, flag : {0, 1}, schema : {"none", "same", "different"}]
VARIABLES file, mem, withSchema, pc, interpreted, result
cvars == <<file, mem, withSchema, pc, interpreted, result>>

CInit == /\ file \in Files /\ mem \in 0..2 /\ withSchema \in BOOLEAN
         /\ (withSchema <=> file.schema # "none")      \* a reader that expects a schema is given a file that has one
         /\ pc = "magic" /\ interpreted = FALSE /\ result = "running"
FailWith(r) == pc' = "failed" /\ result' = r /\ UNCHANGED <<file, mem, withSchema, interpreted>>
Goto(p) == pc' = p /\ UNCHANGED <<file, mem, withSchema, interpreted, result>>
ReadMagic   == pc = "magic"   /\ IF file.magic THEN Goto("lib") ELSE FailWith("GeneralError:not-savefile")
ReadLib     == pc = "lib"     /\ IF file.lib <= CURRENT_LIB THEN Goto("dataver") ELSE FailWith("GeneralError:future-library")
ReadDataVer == pc = "dataver" /\ IF file.dataver <= mem THEN Goto("flag") ELSE FailWith("WrongVersion")
ReadFlag    == pc = "flag"    /\ Goto(IF withSchema THEN "schema" ELSE "payload")
ReadSchema  == pc = "schema"  /\ Goto("diff")
Compare     == pc = "diff"    /\ IF file.schema = "same" THEN Goto("payload") ELSE FailWith("IncompatibleSchema")
Payload     == /\ pc = "payload" /\ interpreted' = TRUE /\ pc' = "done" /\ result' = "value"
               /\ UNCHANGED <<file, mem, withSchema>>
CNext == ReadMagic \/ ReadLib \/ ReadDataVer \/ ReadFlag \/ ReadSchema \/ Compare \/ Payload
CSpec == CInit /\ [][CNext]_cvars

GateFirst == interpreted => /\ file.magic /\ file.lib <= CURRENT_LIB /\ file.dataver <= mem
                            /\ (withSchema => file.schema = "same")
CExport == pc \in {"done", "failed"} =>
    PrintT(ToJson([kind |-> "header", file |-> file, mem |-> mem, withSchema |-> withSchema, result |-> result]))

=============================================================================

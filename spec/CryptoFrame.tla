----------------------------- MODULE CryptoFrame -----------------------------
(***************************************************************************)
(* C14 (and the encrypted part of C07): the framing of an encrypted stream *)
(*     nonce | { length | ciphertext | tag }*                              *)
(* read by the CryptoReader state machine, with an IDEAL AEAD: a chunk     *)
(* opens iff key, nonce, position in the nonce sequence, ciphertext and    *)
(* tag are exactly what was sealed.  The attacker modifies one stored cell *)
(* (any length value for a length cell), truncates at any offset, or the   *)
(* reader uses another key.                                                *)
(* Cells are abstract: one cell stands for the nonce, one for each length  *)
(* field, one per ciphertext byte, one for each tag.                       *)
(***************************************************************************)
EXTENDS Naturals, Sequences, FiniteSets, TLC

CONSTANTS P,      \* number of plaintext bytes the deserializer needs
          BUF     \* plaintext bytes per chunk
TAG == 1
NChunks == (P + BUF - 1) \div BUF
ChunkLen(j) == IF j < NChunks THEN BUF ELSE P - BUF * (NChunks - 1)      \* j in 1..NChunks

Cell(c, j, v, ok) == [c |-> c, j |-> j, v |-> v, ok |-> ok]
RECURSIVE ChunksFrom(_)
ChunksFrom(j) ==
    IF j > NChunks THEN <<>>
    ELSE <<Cell("len", j, ChunkLen(j) + TAG, TRUE)>> \o [i \in 1..ChunkLen(j) |-> Cell("ct", j, i, TRUE)]
         \o <<Cell("tag", j, 0, TRUE)>> \o ChunksFrom(j + 1)
Intact == <<Cell("nonce", 0, 0, TRUE)>> \o ChunksFrom(1)

Attacks ==
    {[k |-> "none", i |-> 0, v |-> 0], [k |-> "wrongkey", i |-> 0, v |-> 0]}
    \cup {[k |-> "trunc", i |-> i, v |-> 0] : i \in 0..(Len(Intact) - 1)}
    \cup {[k |-> "flip", i |-> i, v |-> v] : i \in 1..Len(Intact), v \in 0..(BUF + TAG + 1)}
Apply(a) ==
    CASE a.k = "trunc" -> SubSeq(Intact, 1, a.i)
      [] a.k = "flip" -> [n \in 1..Len(Intact) |->
                            IF n # a.i THEN Intact[n]
                            ELSE IF Intact[n].c = "len" THEN Cell("len", Intact[n].j, a.v, a.v = Intact[n].v)
                            ELSE Cell(Intact[n].c, Intact[n].j, Intact[n].v, FALSE)]
      [] OTHER -> Intact
\* a flip that writes the original length back is no modification
Effective(a) == a.k # "none" /\ ~(a.k = "flip" /\ Intact[a.i].c = "len" /\ a.v = Intact[a.i].v)

VARIABLES attack, file, pc, pos, nonceOk, ctr, buffered, delivered
vars == <<attack, file, pc, pos, nonceOk, ctr, buffered, delivered>>

Init == /\ attack \in Attacks /\ file = Apply(attack)
        /\ pc = "nonce" /\ pos = 0 /\ nonceOk = FALSE /\ ctr = 1 /\ buffered = 0 /\ delivered = 0

Fail(why) == pc' = why /\ UNCHANGED <<attack, file, pos, nonceOk, ctr, buffered, delivered>>

\* CryptoReader::new: the nonce
ReadNonce ==
    /\ pc = "nonce"
    /\ IF Len(file) < 1 THEN Fail("failed:eof-in-nonce")
       ELSE /\ pc' = "run" /\ pos' = 1 /\ nonceOk' = file[1].ok
            /\ UNCHANGED <<attack, file, ctr, buffered, delivered>>
\* the deserializer takes a buffered plaintext byte
Deliver ==
    /\ pc = "run" /\ buffered > 0 /\ delivered < P
    /\ buffered' = buffered - 1 /\ delivered' = delivered + 1
    /\ UNCHANGED <<attack, file, pc, pos, nonceOk, ctr>>
\* everything the deserializer needs has been delivered
Finish ==
    /\ pc = "run" /\ delivered = P
    /\ pc' = "done" /\ UNCHANGED <<attack, file, pos, nonceOk, ctr, buffered, delivered>>
\* buffer empty: read the next chunk (size header, body, open)
NextChunk ==
    /\ pc = "run" /\ buffered = 0 /\ delivered < P
    /\ IF pos = Len(file) THEN Fail("failed:clean-eof-but-data-missing")      \* read() returns 0, read_exact fails
       ELSE LET l == file[pos + 1] IN
            IF l.c # "len" THEN Fail("failed:crypto")                           \* (cannot happen: framing is self-delimiting)
            ELSE IF l.v > BUF + TAG THEN Fail("failed:crypto-length")
            ELSE IF pos + 1 + l.v > Len(file) THEN Fail("failed:eof-in-chunk")
            ELSE LET body == SubSeq(file, pos + 2, pos + 1 + l.v)
                     \* ideal AEAD: exactly the sealed bytes of chunk number ctr, under the right key and nonce
                     opens == /\ attack.k # "wrongkey" /\ nonceOk /\ l.ok
                              /\ ctr <= NChunks /\ l.j = ctr /\ l.v = ChunkLen(ctr) + TAG
                              /\ \A n \in 1..Len(body) : body[n].ok /\ body[n].j = ctr
                              /\ l.v >= TAG
                 IN IF ~opens THEN Fail("failed:crypto-open")
                    ELSE /\ buffered' = l.v - TAG /\ pos' = pos + 1 + l.v /\ ctr' = ctr + 1
                         /\ UNCHANGED <<attack, file, pc, nonceOk, delivered>>
Next == ReadNonce \/ Deliver \/ Finish \/ NextChunk
Spec == Init /\ [][Next]_vars

\* C14: an encrypted file loads only when intact and with the right key
TamperRejected == (pc = "done") => ~Effective(attack)
IntactLoads    == (attack.k = "none" /\ ~ENABLED Next) => pc = "done"
Terminal == pc = "done" \/ (pc # "nonce" /\ pc # "run")
=============================================================================

CONSTANTS
  P = 5
  BUF = 2
SPECIFICATION Spec
INVARIANT TamperRejected IntactLoads
CHECK_DEADLOCK FALSE

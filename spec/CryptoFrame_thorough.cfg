CONSTANTS
  P = 7
  BUF = 3
SPECIFICATION Spec
INVARIANT TamperRejected IntactLoads
CHECK_DEADLOCK FALSE

SPECIFICATION Spec
INVARIANT DeepRoundTrip Linear Export
CHECK_DEADLOCK FALSE

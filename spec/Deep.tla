-------------------------------- MODULE Deep --------------------------------
(***************************************************************************)
(* C06 for recursive definitions: WELL-FORMED input that is deeply nested. *)
(*                                                                         *)
(* DeepVal(ty, d) is the value of the recursive definition ty nested d     *)
(* levels below its root; the format gives it a finite encoding whose      *)
(* length is linear in d, and the reader oracle decodes that encoding back *)
(* to the value -- for every d.  TLC checks this for the depths the        *)
(* unfolding of Wire!LibEquiv holds and exports the encodings; the harness *)
(* builds the same encodings for depths of 10^3 .. 10^6 (checking its      *)
(* generator against the exported ones) and the real reader must return    *)
(* the value with d + 1 levels or an error: a stack overflow is an abort.  *)
(***************************************************************************)
EXTENDS WireVals, Json

RECURSIVE ListFrom(_, _), TreeFrom(_, _)
\* level i of d: value byte i % 251 (the u16 is that byte followed by 1), then the next level or the end
ListFrom(i, d) == L(<<B(<<i % 251, 1>>), IF i = d THEN None ELSE Some(ListFrom(i + 1, d))>>)
TreeFrom(i, d) == L(<<B(<<i % 251>>), L(IF i = d THEN <<>> ELSE <<TreeFrom(i + 1, d)>>)>>)
DeepVal(ty, d) == IF ty = "RecList" THEN ListFrom(0, d) ELSE TreeFrom(0, d)
MaxD(ty) == IF ty = "RecList" THEN 3 ELSE 2        \* what the unfoldings RecListT(3) / RecTreeT(2) hold

VARIABLES ty, d
vars == <<ty, d>>
Init == ty \in {"RecList", "RecTree"} /\ d \in 0..3 /\ d <= MaxD(ty)
Next == UNCHANGED vars
Spec == Init /\ [][Next]_vars

TyD == Lib(ty)
DeepRoundTrip == LET b == Enc(TyD, DeepVal(ty, d), 0)  r == Dec(TyD, b, 0, 0) IN r.ok /\ r.pos = Len(b) /\ r.v = DeepVal(ty, d)
\* the encoding grows by a constant number of bytes per level (3 for the list, 9 for the tree)
Linear == Len(Enc(TyD, DeepVal(ty, d), 0)) = (d + 1) * (IF ty = "RecList" THEN 3 ELSE 9)
Export == PrintT(ToJson([ty |-> ty, depth |-> d, bytes |-> Enc(TyD, DeepVal(ty, d), 0)]))
=============================================================================

-------------------------------- MODULE Evo --------------------------------
(***************************************************************************)
(* Schema evolution (C03, C18).                                            *)
(*                                                                         *)
(* A HISTORY is a final definition D whose field attributes record when    *)
(* each field was added (from), removed (to, rm), converted (af..at,asty)  *)
(* and when each enum variant was appended (var.n).  DefAt(D, i) is the    *)
(* SOURCE of the program at version i, obtained by undoing the documented  *)
(* edit steps that happened after i.  Load and Down are the meaning        *)
(* oracles, defined by structural recursion on the two definitions and     *)
(* independent of the reader machine Wire!Dec.                             *)
(***************************************************************************)
EXTENDS EvoOps, Json

CONSTANT Tier

(* ------------------------------------------------------------------ *)
(* Histories                                                           *)
(* ------------------------------------------------------------------ *)
N == 3     \* latest version; programs exist at versions 0..N  (3 > the library format version 2)

NoAs == P("unit")
APlain          == Plain
AAdd(f, df)     == FA(f, INF, "no", df, FALSE, 1, 0, NoAs)
ARem(f, to, rm) == FA(f, to, rm, "default", FALSE, 1, 0, NoAs)
AConv(c, old)   == FA(c, INF, "no", "default", FALSE, 0, c - 1, old)   \* converted at version c
AConvLate(b, c, df, old) == FA(c, INF, "no", df, FALSE, b, c - 1, old)  \* ADDED at version b >= 1 with type old, converted at c > b

\* (type, attribute) choices for one field
FieldHist ==
    { <<ty, APlain>> : ty \in {P("u8"), P("u32"), Str} }
    \cup { <<ty, AAdd(f, df)>> : ty \in {P("u8"), P("u16"), Str}, f \in {1, 3}, df \in {"default", "fn"} }
    \cup { <<P("u32"), AAdd(1, "val")>>, <<Vec("Vec", P("u8")), AAdd(2, "default")>>, <<Opt(P("u16")), AAdd(1, "fn")>> }
    \cup { <<ty, ARem(0, to, rm)>> : ty \in {P("u8"), P("u32"), Str}, to \in {0, 2}, rm \in {"removed", "abi"} }
    \cup { <<P("u16"), ARem(1, 1, rm)>> : rm \in {"removed", "abi"} }
    \cup { <<P("u32"), AConv(c, P("u8"))>> : c \in {1, 3} }
    \cup { <<P("u64"), AConv(1, P("u16"))>>, <<Opt(P("u8")), AConv(2, P("u8"))>> }
    \* two edits of ONE field: added after version 0, its type changed later (files older than the addition get the default)
    \cup { <<P("u32"), AConvLate(1, 2, "default", P("u8"))>>, <<P("u64"), AConvLate(1, 3, "default", P("u16"))>>,
           <<Opt(P("u8")), AConvLate(2, 3, "default", P("u8"))>>, <<P("u32"), AConvLate(1, 2, "fn", P("u16"))>> }
PlainFields == { <<P("u8"), APlain>>, <<Str, APlain>>, <<P("u16"), APlain>> }
AbiFieldHist == { h \in FieldHist : h[2].rm # "removed" /\ ~HasAs(h[2]) }

TwoHist == { <<P("u8"), AAdd(f, "default")>> : f \in 1..N } \cup { <<P("u8"), ARem(0, to, "abi")>> : to \in 0..(N - 1) }
MkStruct(repr, hs) == StructA(repr, [m \in 1..Len(hs) |-> hs[m][1]], [m \in 1..Len(hs) |-> hs[m][2]])

HStructsQ ==
    { MkStruct(r, <<a, h>>) : r \in {"Rust", "C"}, a \in PlainFields, h \in FieldHist }
    \cup { MkStruct(r, <<h, a>>) : r \in {"Rust", "C"}, a \in PlainFields, h \in FieldHist }
    \cup { MkStruct("C", <<a, h, b>>) : a \in {<<P("u8"), APlain>>}, h \in FieldHist, b \in PlainFields }
    \cup { MkStruct("C", <<h, g>>) : h \in {<<P("u8"), ARem(0, 0, "abi")>>, <<P("u8"), AAdd(1, "default")>>, <<P("u32"), AConv(1, P("u8"))>>},
                                     g \in FieldHist }
    \* two versioned fields whose order of declaration differs from the order of their versions
    \cup { MkStruct(r, <<h, g>>) : r \in {"Rust", "C"}, h \in TwoHist, g \in TwoHist }
HStructsT ==
    HStructsQ
    \cup { MkStruct(r, <<h, g>>) : r \in {"Rust", "C"}, h \in FieldHist, g \in FieldHist }
    \cup { MkStruct("C", <<a, h, g>>) : a \in {<<P("u8"), APlain>>, <<P("u32"), APlain>>}, h \in AbiFieldHist, g \in AbiFieldHist }

\* enums: variants appended over time, fields with history inside a variant
HEnums ==
    { Enum(r, <<Var(0, <<>>), Var(1, <<P("u8")>>)>>) : r \in {"", "u8"} }
    \cup { Enum(r, <<Var(0, <<P("u16")>>), Var(0, <<>>), Var(3, <<Str>>)>>) : r \in {"", "u16"} }
    \cup { Enum("", <<Var(0, <<P("u8")>>), Var(1, <<>>), Var(3, <<>>)>>) }
    \cup { Enum(r, <<T("var", "", 0, <<h[1], P("u8")>>, <<h[2], Plain>>), Var(0, <<>>)>>) :
             r \in {"", "u32"}, h \in {<<P("u32"), ARem(0, 0, "abi")>>, <<P("u32"), ARem(0, 0, "removed")>>,
                                       <<P("u16"), AAdd(1, "default")>>, <<P("u32"), AConv(1, P("u8"))>>} }

SmallH == { MkStruct("C", <<a, h>>) : a \in {<<P("u8"), APlain>>},
             h \in {<<P("u8"), AAdd(1, "default")>>, <<P("u8"), ARem(0, 0, "abi")>>, <<P("u8"), ARem(0, 1, "removed")>>,
                    <<P("u32"), AConv(1, P("u8"))>>, <<P("u16"), ARem(1, 1, "abi")>>} }
Nested ==
    { Vec("Vec", h) : h \in SmallH \cup HEnums }
    \cup { Arr(h, 2) : h \in SmallH }
    \cup { Opt(h) : h \in SmallH }
    \cup { Vec("BoxSlice", h) : h \in SmallH }
    \cup { Struct(r, <<h, P("u8")>>) : r \in {"C"}, h \in SmallH \cup HEnums }
    \cup { Struct("Rust", <<Str, Vec("Vec", h)>>) : h \in SmallH }
    \cup { Map("BTreeMap", P("u8"), h) : h \in SmallH }
    \cup { Bx(k, h) : k \in {"Box", "Arc"}, h \in SmallH }
    \cup { Tup(<<h, P("u8")>>) : h \in SmallH }
    \cup { Res(h, Str) : h \in SmallH } \cup { Res(P("u8"), h) : h \in SmallH }
    \cup { Opt(Vec("Vec", h)) : h \in SmallH }
    \* packed structs with TWO versioned fields inside a sequence: the bulk path must be off at every version at which the
    \* wire fields differ from the memory fields, whatever the order of declaration
    \cup { Vec("Vec", MkStruct("C", <<h, g>>)) : h \in TwoHist, g \in TwoHist }
    \cup { Arr(MkStruct("C", <<h, g>>), 2) : h \in {<<P("u8"), AAdd(2, "default")>>, <<P("u8"), ARem(0, 1, "abi")>>}, g \in TwoHist }

Histories == (IF Tier = "thorough" THEN HStructsT ELSE HStructsQ) \cup HEnums \cup Nested

\* C18 histories: only additions and AbiRemoved removals
RECURSIVE AbiOnly(_)
AbiOnly(t) == /\ \A m \in 1..Len(t.fa) : t.fa[m].rm # "removed" /\ ~HasAs(t.fa[m])
              /\ \A m \in 1..Len(t.ts) : AbiOnly(t.ts[m])

(* ------------------------------------------------------------------ *)
(* State machine: write at version i with program i, read with j       *)
(* ------------------------------------------------------------------ *)
VARIABLES mode, d, i, j, v, phase, todo, out, rd
vars == <<mode, d, i, j, v, phase, todo, out, rd>>
NoRd == R(FALSE, Unit, 0, "", <<>>)

Writer(md, dd, ii, jj) == IF md = "up" THEN DefAt(dd, ii) ELSE DefAt(dd, jj)
ValSet(ty) == LET vals == Vals(ty) IN {vals[m] : m \in 1..Len(vals)}

\* "up":   program i writes at version i, program j >= i reads        (C03)
\* "down": program j writes at version i <= j, program i reads        (C18)
Init ==
    /\ d \in Histories
    /\ mode \in {"up", "down"}
    /\ i \in 0..N /\ j \in 0..N /\ i <= j
    /\ mode = "down" => AbiOnly(d)
    \* (the filter is inside a set constructor on purpose: TLC explores BOTH sides of a state-level
    \*  disjunction while computing initial states, it does not short-circuit)
    /\ v \in {x \in ValSet(Writer(mode, d, i, j)) : mode = "down" => Writable(Writer(mode, d, i, j), x, i)}
    /\ todo = Settle(<<Fr(Writer(mode, d, i, j), v)>>, i)
    /\ phase = "write" /\ out = <<>> /\ rd = NoRd

WCall ==
    /\ phase = "write" /\ todo # <<>> /\ Head(todo).t.k = "raw"
    /\ out' = out \o Head(todo).v.bs
    /\ todo' = Settle(Tail(todo), i)
    /\ UNCHANGED <<mode, d, i, j, v, phase, rd>>
WPanic ==
    /\ phase = "write" /\ todo # <<>> /\ Head(todo).t.k = "panic"
    /\ phase' = "panicked"
    /\ UNCHANGED <<mode, d, i, j, v, todo, out, rd>>
WDone ==
    /\ phase = "write" /\ todo = <<>>
    /\ phase' = "done"
    /\ rd' = Dec(IF mode = "up" THEN DefAt(d, j) ELSE DefAt(d, i), out, 0, i)
    /\ UNCHANGED <<mode, d, i, j, v, todo, out>>
Next == WCall \/ WPanic \/ WDone
Spec == Init /\ [][Next]_vars

Done == phase = "done"
Expected == IF mode = "up" THEN Load(d, i, j, v) ELSE Down(d, j, i, v)
\* C03
EvolutionLoad == Done /\ mode = "up" => rd.ok /\ rd.pos = Len(out) /\ rd.v = Expected
\* C18
OlderWrite    == Done /\ mode = "down" => rd.ok /\ rd.pos = Len(out) /\ rd.v = Expected
                                          /\ out = Enc(DefAt(d, i), Expected, i)
NoPanicHere   == phase # "panicked"

Export == Done => PrintT(ToJson([mode |-> mode, i |-> i, j |-> j, v |-> v, bytes |-> out, expect |-> Expected,
                                 ts |-> <<DefAt(d, i), DefAt(d, j)>>, d |-> d]))
=============================================================================

------------------------------- MODULE EvoOps -------------------------------
(***************************************************************************)
(* Operators of schema evolution, without state: DefAt (the program at a   *)
(* version), Load and Down (meaning oracles), Writable.  Used by Evo (C03,  *)
(* C18) and by AbiVer (C10).                                               *)
(***************************************************************************)
EXTENDS WireVals

(* ------------------------------------------------------------------ *)
(* The program at version i                                            *)
(* ------------------------------------------------------------------ *)
RECURSIVE DefAt(_, _)
\* indices of the fields of (ts, fa) that exist in the source at version i
\* the version in which the field first existed (a converted field exists since the start of its old type's range)
Born(a) == IF HasAs(a) THEN a.af ELSE a.from
Kept(fa, i) == SelectSeq([k \in 1..Len(fa) |-> k], LAMBDA k : Born(fa[k]) <= i)

FieldAt(ty, a, i) ==
    \* returns <<type, attr>> of the field as declared at version i  (Born(a) <= i)
    IF HasAs(a) /\ i <= a.at
    THEN \* before the conversion: the field still has its old type, no version attribute beyond its start
         <<DefAt(a.asty, i), FA(a.af, INF, "no", a.df, FALSE, 1, 0, P("unit"))>>
    ELSE IF a.to < i
    THEN <<DefAt(ty, i), a>>                                   \* already removed: as in D
    ELSE <<DefAt(ty, i), FA(a.from, INF, "no", a.df, a.ig, a.af, a.at, a.asty)>>   \* still live

DefAt(t, i) ==
    CASE t.k = "struct" ->
            LET ks == Kept(t.fa, i) IN
            T("struct", t.s, t.n, [j \in 1..Len(ks) |-> FieldAt(t.ts[ks[j]], t.fa[ks[j]], i)[1]],
                                  [j \in 1..Len(ks) |-> FieldAt(t.ts[ks[j]], t.fa[ks[j]], i)[2]])
      [] t.k = "enum" /\ t.n = 0 ->
            LET vs == SelectSeq(t.ts, LAMBDA var : var.n <= i) IN
            T("enum", t.s, 0, [j \in 1..Len(vs) |-> DefAt(vs[j], i)], <<>>)
      [] t.k = "var" ->
            LET ks == Kept(t.fa, i) IN
            T("var", t.s, t.n, [j \in 1..Len(ks) |-> FieldAt(t.ts[ks[j]], t.fa[ks[j]], i)[1]],
                               [j \in 1..Len(ks) |-> FieldAt(t.ts[ks[j]], t.fa[ks[j]], i)[2]])
      [] t.k \in {"vec", "arr", "opt", "res", "box", "tup", "map"} ->
            T(t.k, t.s, t.n, [j \in 1..Len(t.ts) |-> DefAt(t.ts[j], i)], t.fa)
      [] OTHER -> t

(* ------------------------------------------------------------------ *)
(* Load(D, i, j, v): what the program at version j must obtain from a  *)
(* value v of the program at version i  (i <= j)                        *)
(* ------------------------------------------------------------------ *)
RECURSIVE Load(_, _, _, _)
\* position of D-field k inside the version-i source (0 if absent)
PosAt(fa, k, i) == IF Born(fa[k]) > i THEN 0 ELSE Cardinality({m \in 1..k : Born(fa[m]) <= i})

LoadFields(ts, fa, i, j, vs) ==
    LET kj == Kept(fa, j) IN
    [m \in 1..Len(kj) |->
        LET k == kj[m]  a == fa[k] IN
        IF a.to < j THEN Unit                                   \* removed in the loading program
        ELSE IF Born(a) > i THEN                                 \* added after the file was written
             \* (of the type the field has in the loading program: a field converted later still has its old type at j)
             (IF a.df = "default" THEN DefaultOf(FieldAt(ts[k], a, j)[1]) ELSE WitnessOf(FieldAt(ts[k], a, j)[1]))
        ELSE IF HasAs(a) /\ i <= a.at /\ j > a.at THEN Conv(vs[PosAt(fa, k, i)], ts[k])   \* converted in between
        ELSE IF HasAs(a) /\ j <= a.at THEN Load(a.asty, i, j, vs[PosAt(fa, k, i)])
        ELSE Load(ts[k], i, j, vs[PosAt(fa, k, i)])]

Load(t, i, j, v) ==
    CASE t.k = "struct" -> L(LoadFields(t.ts, t.fa, i, j, v.vs))
      [] t.k = "enum" /\ t.n = 0 ->
            \* variant indices are stable (variants are only appended)
            LET var == SelectSeq(t.ts, LAMBDA x : x.n <= i)[v.n + 1] IN
            EV(v.n, LoadFields(var.ts, var.fa, i, j, v.vs))
      [] t.k \in {"vec", "arr"} -> L([m \in 1..Len(v.vs) |-> Load(t.ts[1], i, j, v.vs[m])])
      [] t.k = "opt" -> IF v.n = 0 THEN None ELSE Some(Load(t.ts[1], i, j, v.vs[1]))
      [] t.k = "res" -> IF v.n = 1 THEN OkV(Load(t.ts[1], i, j, v.vs[1])) ELSE ErrV(Load(t.ts[2], i, j, v.vs[1]))
      [] t.k = "box" -> Load(t.ts[1], i, j, v)
      [] t.k = "tup" -> L([m \in 1..Len(t.ts) |-> Load(t.ts[m], i, j, v.vs[m])])
      [] t.k = "map" -> L([m \in 1..Len(v.vs) |-> Load(t.ts[IF m % 2 = 1 THEN 1 ELSE 2], i, j, v.vs[m])])
      [] OTHER -> v

(* ------------------------------------------------------------------ *)
(* Down(D, n, k, v): what the program at version k must obtain when    *)
(* the program at version n writes v at data version k  (k <= n)        *)
(* ------------------------------------------------------------------ *)
RECURSIVE Down(_, _, _, _)
DownFields(ts, fa, n, k, vs) ==
    LET kk == Kept(fa, k) IN
    [m \in 1..Len(kk) |->
        LET q == kk[m]  a == fa[q] IN
        IF a.to < k THEN Unit                                    \* removed already at k
        ELSE IF a.to < n THEN DefaultOf(DefAt(ts[q], k))          \* AbiRemoved since: constructed value
        ELSE Down(ts[q], n, k, vs[PosAt(fa, q, n)])]
Down(t, n, k, v) ==
    CASE t.k = "struct" -> L(DownFields(t.ts, t.fa, n, k, v.vs))
      [] t.k = "enum" /\ t.n = 0 ->
            LET var == SelectSeq(t.ts, LAMBDA x : x.n <= n)[v.n + 1] IN
            EV(v.n, DownFields(var.ts, var.fa, n, k, v.vs))
      [] t.k \in {"vec", "arr"} -> L([m \in 1..Len(v.vs) |-> Down(t.ts[1], n, k, v.vs[m])])
      [] t.k = "opt" -> IF v.n = 0 THEN None ELSE Some(Down(t.ts[1], n, k, v.vs[1]))
      [] t.k = "box" -> Down(t.ts[1], n, k, v)
      [] t.k = "tup" -> L([m \in 1..Len(t.ts) |-> Down(t.ts[m], n, k, v.vs[m])])
      [] t.k = "res" -> IF v.n = 1 THEN OkV(Down(t.ts[1], n, k, v.vs[1])) ELSE ErrV(Down(t.ts[2], n, k, v.vs[1]))
      [] t.k = "map" -> L([m \in 1..Len(v.vs) |-> Down(t.ts[IF m % 2 = 1 THEN 1 ELSE 2], n, k, v.vs[m])])
      [] OTHER -> v

\* a value of the version-n program may be written at version k only if every enum value in it
\* uses a variant that exists at k  (the documented panic otherwise; C18 excludes it)
RECURSIVE Writable(_, _, _)
Writable(t, v, k) ==
    CASE t.k = "enum" /\ t.n = 0 ->
            /\ t.ts[v.n + 1].n <= k
            /\ \A m \in 1..Len(v.vs) : t.ts[v.n + 1].fa[m].rm # "no" \/ Writable(t.ts[v.n + 1].ts[m], v.vs[m], k)
      [] t.k = "struct" -> \A m \in 1..Len(v.vs) : t.fa[m].rm # "no" \/ t.fa[m].ig \/ Writable(t.ts[m], v.vs[m], k)
      [] t.k \in {"vec", "arr"} -> \A m \in 1..Len(v.vs) : Writable(t.ts[1], v.vs[m], k)
      [] t.k = "opt" -> v.n = 0 \/ Writable(t.ts[1], v.vs[1], k)
      [] t.k = "box" -> Writable(t.ts[1], v, k)
      [] t.k = "tup" -> \A m \in 1..Len(t.ts) : Writable(t.ts[m], v.vs[m], k)
      [] t.k = "res" -> Writable(t.ts[IF v.n = 1 THEN 1 ELSE 2], v.vs[1], k)
      [] t.k = "map" -> \A m \in 1..Len(v.vs) : Writable(t.ts[IF m % 2 = 1 THEN 1 ELSE 2], v.vs[m], k)
      [] OTHER -> TRUE

=============================================================================

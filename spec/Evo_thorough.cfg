CONSTANT Tier = "thorough"
SPECIFICATION Spec
INVARIANT EvolutionLoad OlderWrite NoPanicHere Export
CHECK_DEADLOCK FALSE

------------------------------- MODULE GateMC -------------------------------
(***************************************************************************)
(* C05: the schema and header gate.                                        *)
(*                                                                         *)
(* (the header state machine is spec/Container.tla)                        *)
(* The pair relation:     for (type saved, type loaded) of the gate        *)
(*     catalogue, the comparison Diff of the two schemas against the       *)
(*     oracles SameTree (must accept) / SameFlat (must reject when false). *)
(***************************************************************************)
EXTENDS Schema, WireVals, Json, SequencesExt

CONSTANT Tier

(* ------------------------------------------------------------------ *)
(* (2) pairs of types                                                  *)
(* ------------------------------------------------------------------ *)
U8 == P("u8")
GateTypesQ ==
    {P(n) : n \in {"u8", "i8", "u16", "u32", "i32", "u64", "usize", "f32", "bool", "char", "unit", "u128"}}
    \cup {Str, Lib("ArcStr"), Lib("PathBuf"), Lib("Duration"), Lib("IpAddr"), Lib("Canary1"), Lib("AtomicU8"), Lib("PhantomData"), Lib("IoError")}
    \cup {Vec(k, t) : k \in {"Vec", "VecDeque", "BoxSlice", "BTreeSet"}, t \in {U8, P("u32"), Str}}
    \cup {Arr(t, n) : t \in {U8, P("u16")}, n \in {2, 3}}
    \cup {Opt(t) : t \in {U8, P("u32"), Str}} \cup {Opt(Opt(U8)), Vec("Vec", Opt(U8)), Opt(Vec("Vec", U8))}
    \cup {Bx("Box", U8), Bx("Arc", Str), Bx("RefCell", P("u32"))}
    \cup {Tup(<<a>>) : a \in {U8, Str}} \cup {Tup(<<a, b>>) : a \in {U8, P("u16")}, b \in {U8, P("u16"), Str}}
    \cup {Tup(<<U8, U8, U8>>)}
    \cup {Map(k, U8, b) : k \in {"BTreeMap", "HashMap"}, b \in {U8, Str}} \cup {Vec("Vec", Tup(<<U8, U8>>))}
    \cup {Struct(r, <<a>>) : r \in {"Rust", "C"}, a \in {U8, Str, P("u32")}}
    \cup {Struct("Rust", <<a, b>>) : a \in {U8, P("u16")}, b \in {U8, P("u16"), Str}}
    \cup {Struct("C", <<U8, U8, U8>>), Struct("Rust", <<Struct("Rust", <<U8>>), U8>>), Struct("Rust", <<Tup(<<U8, U8>>)>>)}
    \cup {Enum(r, <<Var(0, <<>>), Var(0, <<>>)>>) : r \in {"", "u8", "u16"}}
    \cup {Enum("", <<Var(0, <<>>), Var(0, <<>>), Var(0, <<>>)>>)}
    \cup {Enum("", <<Var(0, <<>>), Var(0, <<a>>)>>) : a \in {U8, P("u16"), Str}}
    \cup {Enum("", <<Var(0, <<a>>), Var(0, <<>>)>>) : a \in {U8}}
    \cup {Enum("", <<Var(0, <<U8>>), Var(0, <<U8>>)>>), Enum("", <<Var(0, <<U8, U8>>), Var(0, <<>>)>>)}
    \* ignored fields are not part of the wire layout; results, ranges and maps with other value types
    \cup {StructA("Rust", <<U8, P("u16")>>, <<Plain, Ign>>), StructA("Rust", <<P("u16"), U8>>, <<Ign, Plain>>), StructA("C", <<U8, Str, U8>>, <<Plain, Ign, Plain>>)}
    \cup {Res(U8, U8), Res(U8, Str), Res(Str, U8), Rng(U8), Rng(P("u16")), Map("BTreeMap", Str, U8), Map("BTreeMap", U8, P("u16"))}
GateTypes == GateTypesQ \cup (IF Tier = "thorough" THEN
    {Struct(r, <<a, b, c>>) : r \in {"Rust"}, a \in {U8, P("u16")}, b \in {U8, Str}, c \in {U8, P("u32")}}
    \cup {Vec("Vec", Struct("Rust", <<a, b>>)) : a \in {U8, P("u16")}, b \in {U8, Str}}
    \cup {Opt(Struct("Rust", <<a>>)) : a \in {U8, Str}} ELSE {})

TypeSeq == SetToSeq(GateTypes)
Class(a, b) ==
    LET sa == SchemaOf(a, 0)  sb == SchemaOf(b, 0) IN
    IF SameTree(sa, sb) THEN "accept" ELSE IF ~SameFlat(sa, sb) THEN "reject" ELSE "dontcare"

VARIABLES ia, phase
pvars == <<ia, phase>>
PInit == ia \in 1..Len(TypeSeq) /\ phase = "picked"
PStep == phase = "picked" /\ phase' = "classified" /\ ia' = ia
PSpec == PInit /\ [][PStep]_pvars

\* the comparison (memory schema = loaded type b, file schema = saved type a) is sound and complete w.r.t. the oracles
GateSound    == \A ib \in 1..Len(TypeSeq) :
                    LET fs == SchemaOf(TypeSeq[ia], 0)  ms == SchemaOf(TypeSeq[ib], 0) IN ~Diff(ms, fs) => SameFlat(ms, fs)
GateComplete == \A ib \in 1..Len(TypeSeq) :
                    LET fs == SchemaOf(TypeSeq[ia], 0)  ms == SchemaOf(TypeSeq[ib], 0) IN SameTree(ms, fs) => ~Diff(ms, fs)
PExport == phase = "classified" =>
    PrintT(ToJson([kind |-> "pairs", ia |-> ia, t |-> TypeSeq[ia], ver |-> 0, v |-> Vals(TypeSeq[ia])[Len(Vals(TypeSeq[ia]))],
                   ts |-> IF ia = 1 THEN TypeSeq ELSE <<>>,
                   classes |-> [ib \in 1..Len(TypeSeq) |-> Class(TypeSeq[ia], TypeSeq[ib])]]))
=============================================================================

CONSTANT Tier = "quick"
SPECIFICATION PSpec
INVARIANT GateSound GateComplete PExport
CHECK_DEADLOCK FALSE

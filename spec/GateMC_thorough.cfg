CONSTANT Tier = "thorough"
SPECIFICATION PSpec
INVARIANT GateSound GateComplete PExport
CHECK_DEADLOCK FALSE

----------------------------- MODULE Introspect -----------------------------
(***************************************************************************)
(* The Introspector navigation state machine (C17): an abstract            *)
(* introspection tree, the path state, the four navigation commands,       *)
(* `dive` transcribed step for step (one loop iteration per child index),  *)
(* and total_index / total_len with NATURAL-number arithmetic in which an  *)
(* underflow or an out-of-range index is a Panic outcome.                  *)
(*                                                                         *)
(* Tree node: [key, kids]   (kids: sequence of nodes; duplicates allowed)  *)
(* Command  : [k, depth, key, dis, index]                                  *)
(*            k = "expand" | "nth" | "up" | "nothing"                      *)
(***************************************************************************)
EXTENDS Naturals, Integers, Sequences, FiniteSets, TLC, Json

CONSTANT Tier

Node(key, kids) == [key |-> key, kids |-> kids]
Cmd(k, depth, key, dis, index) == [k |-> k, depth |-> depth, key |-> key, dis |-> dis, index |-> index]
PE(key, dis, max) == [key |-> key, dis |-> dis, max |-> max]
NoPath == PE("<none>", -1, -1)
INFLIMIT == 1000000

KV(key, dis, depth, has, sel) == [key |-> key, dis |-> dis, depth |-> depth, has |-> has, sel |-> sel]
Frame(selected, kvs, lim) == [selected |-> selected, kvs |-> kvs, lim |-> lim]     \* selected = -1: None
\* result of dive: err = "" on success
DR(err, frames, path) == [err |-> err, frames |-> frames, path |-> path]

CountKey(kvs, key) == Cardinality({i \in 1..Len(kvs) : kvs[i].key = key})

RECURSIVE Dive(_, _, _, _, _)
RECURSIVE Loop(_, _, _, _, _)

\* loop state
LS(i, path, cur, sel, nth, kvs, sub, lim) ==
    [i |-> i, path |-> path, cur |-> cur, sel |-> sel, nth |-> nth, kvs |-> kvs, sub |-> sub, lim |-> lim]

\* one iteration per child index; returns either a DR with err # "" (propagated `?`) or the final loop state
Loop(st, depth, obj, cmd, limit) ==
    IF st.i >= Len(obj.kids) THEN [done |-> TRUE, fail |-> DR("", <<>>, st.path), st |-> st]
    ELSE
    LET child == obj.kids[st.i + 1]
        key   == child.key
        dis   == CountKey(st.kvs, key)
        has   == Len(child.kids) > 0
        \* SelectNth hit: push the element, it becomes the current path object
        path1 == IF st.i = st.nth THEN Append(st.path, PE(key, dis, limit)) ELSE st.path
        nth1  == IF st.i = st.nth THEN -1 ELSE st.nth
        cur1  == IF st.i = st.nth THEN PE(key, dis, limit) ELSE st.cur
        hit   == cur1 # NoPath /\ st.sel = -1 /\ cur1.key = key /\ cur1.dis = dis
        kvs1  == Append(st.kvs, KV(key, dis, depth, has, hit))
        sub   == IF hit /\ has THEN Dive(depth + 1, child, cmd, path1, limit) ELSE DR("", st.sub, path1)
    IN IF sub.err # "" THEN [done |-> TRUE, fail |-> sub, st |-> st]
       ELSE LET i2   == st.i + 1
                maxc == IF cur1 # NoPath THEN cur1.max ELSE limit
                st2  == LS(i2, sub.path, cur1, IF hit THEN st.i ELSE st.sel, nth1, kvs1,
                           IF hit /\ has THEN sub.frames ELSE st.sub, i2 >= maxc)
            IN IF i2 >= maxc THEN [done |-> TRUE, fail |-> DR("", <<>>, st2.path), st |-> st2]
               ELSE Loop(st2, depth, obj, cmd, limit)

Dive(depth, obj, cmd, path0, limit) ==
    IF cmd.k = "expand" /\ cmd.depth > Len(path0) THEN DR("BadDepth", <<>>, path0)
    ELSE
    LET here  == cmd.k = "expand" /\ depth = cmd.depth
        path1 == IF here THEN Append(SubSeq(path0, 1, depth), PE(cmd.key, cmd.dis, limit)) ELSE path0
        cur   == IF depth + 1 <= Len(path1) THEN path1[depth + 1] ELSE NoPath
        nth   == IF cmd.k = "nth" /\ depth = cmd.depth THEN cmd.index ELSE -1
        r     == Loop(LS(0, path1, cur, -1, nth, <<>>, <<>>, FALSE), depth, obj, cmd, limit)
    IN IF r.fail.err # "" THEN r.fail
       ELSE LET st == r.st IN
            IF st.nth # -1 THEN DR(IF st.i = 0 THEN "NoChildren" ELSE "IndexOutOfRange", <<>>, st.path)
            ELSE IF here /\ st.sel = -1 THEN DR("UnknownKey", <<>>, SubSeq(st.path, 1, Len(st.path) - 1))
            ELSE DR("", <<Frame(st.sel, st.kvs, st.lim)>> \o st.sub, st.path)

\* do_introspect
DoIntrospect(tree, cmd, path, limit) ==
    IF cmd.k = "up" /\ Len(path) = 0 THEN DR("AlreadyAtTop", <<>>, path)
    ELSE Dive(0, tree, cmd, IF cmd.k = "up" THEN SubSeq(path, 1, Len(path) - 1) ELSE path, limit)

(* ------------------------------------------------------------------ *)
(* total_len / total_index                                             *)
(*   result: [k |-> "some", depth, pos] | [k |-> "none"] | "panic"     *)
(* ------------------------------------------------------------------ *)
RECURSIVE SumLens(_)
SumLens(frames) == IF frames = <<>> THEN 0 ELSE Len(Head(frames).kvs) + SumLens(Tail(frames))
TotalLen(frames) == SumLens(frames)

TI(k, depth, pos, cur) == [k |-> k, depth |-> depth, pos |-> pos, cur |-> cur]
RECURSIVE TotalIndexImpl(_, _, _, _)
\* returns TI; cur is threaded through (the &mut usize)
TotalIndexImpl(frames, index, depth, cur) ==
    IF depth >= Len(frames) THEN TI("none", 0, 0, cur)
    ELSE LET fr == frames[depth + 1] IN
         IF fr.selected # -1 THEN
            IF index <= cur + fr.selected THEN
               IF index < cur \/ index - cur >= Len(fr.kvs) THEN TI("panic", 0, 0, cur)
               ELSE TI("some", depth, index - cur, cur)
            ELSE LET cur1 == cur + fr.selected + 1
                     sub  == TotalIndexImpl(frames, index, depth + 1, cur1) IN
                 IF sub.k \in {"some", "panic"} THEN sub
                 ELSE LET cur2 == sub.cur  off == fr.selected + 1 IN
                      IF index < cur2 THEN TI("panic", 0, 0, cur2)
                      ELSE IF (index - cur2) + off < Len(fr.kvs) THEN TI("some", depth, (index - cur2) + off, cur2)
                      ELSE IF Len(fr.kvs) < off THEN TI("panic", 0, 0, cur2)
                      ELSE TI("none", 0, 0, cur2 + (Len(fr.kvs) - off))
         ELSE IF index < cur THEN TI("panic", 0, 0, cur)
              ELSE IF index - cur < Len(fr.kvs) THEN TI("some", depth, index - cur, cur)
              ELSE TI("none", 0, 0, cur + Len(fr.kvs))
TotalIndex(frames, index) == TotalIndexImpl(frames, index, 0, 0)

(* ------------------------------------------------------------------ *)
(* Universe                                                            *)
(* ------------------------------------------------------------------ *)
Keys == {"a", "b"}
Leaves == {Node(k, <<>>) : k \in Keys}
SeqsUpTo(S, n) == UNION {[1..m -> S] : m \in 0..n}
Depth1 == {Node(k, kids) : k \in Keys, kids \in SeqsUpTo(Leaves, 2)}
Depth2Q == {Node(k, kids) : k \in {"a"}, kids \in SeqsUpTo({Node("a", <<>>), Node("a", <<Node("a", <<>>), Node("b", <<>>)>>),
                                                             Node("b", <<Node("a", <<>>)>>)}, 2)}
TreesQ == {Node("root", kids) : kids \in SeqsUpTo({Node("a", <<>>), Node("a", <<Node("a", <<>>), Node("a", <<>>)>>),
                                                   Node("b", <<Node("b", <<Node("a", <<>>)>>)>>)}, 3)}
          \cup {Node("root", <<n>>) : n \in Depth2Q}
TreesT == {Node("root", kids) : kids \in SeqsUpTo(Depth1, 3)}
          \cup {Node("root", <<n, m>>) : n \in Depth2Q, m \in Depth2Q}
Trees == IF Tier = "thorough" THEN TreesT \cup TreesQ ELSE TreesQ

Limits == {INFLIMIT, 0, 1, 2}
Commands ==
    {Cmd("expand", d, k, s, 0) : d \in 0..3, k \in Keys \cup {"zz"}, s \in 0..2}
    \cup {Cmd("nth", d, "", 0, i) : d \in 0..3, i \in 0..3}
    \cup {Cmd("up", 0, "", 0, 0), Cmd("nothing", 0, "", 0, 0)}
MaxPath == 4
MaxHist == IF Tier = "thorough" THEN 5 ELSE 4

VARIABLES tree, limit, path, last, hist
vars == <<tree, limit, path, last, hist>>

NoCmd == Cmd("init", 0, "", 0, 0)
Init ==
    /\ tree \in Trees /\ limit \in Limits
    /\ path = <<>> /\ last = DR("", <<>>, <<>>) /\ hist = <<>>

Do(cmd) ==
    /\ Len(hist) < MaxHist
    /\ LET r == DoIntrospect(tree, cmd, path, limit) IN
       /\ last' = r
       /\ path' = r.path
    /\ hist' = Append(hist, cmd)
    /\ UNCHANGED <<tree, limit>>
Next == \E cmd \in Commands : Do(cmd)
Spec == Init /\ [][Next]_vars

PathBound == Len(path) <= MaxPath
\* hist is a history variable: it is not part of the state identity
View == <<tree, limit, path, last>>

(* ------------------------------------------------------------------ *)
(* Properties (C17, navigation clause)                                 *)
(* ------------------------------------------------------------------ *)
Indices == 0..12
NoPanic == last.err # "" \/ \A i \in Indices : TotalIndex(last.frames, i).k # "panic"
TotalIndexDense ==
    last.err # "" \/ \A i \in Indices : (TotalIndex(last.frames, i).k = "some") <=> (i < TotalLen(last.frames))
\* the element returned by the flat index is the i-th element of the pre-order walk
\* (frame rows interleaved at the selected element)
RECURSIVE Walk(_, _)
Walk(frames, depth) ==
    IF depth >= Len(frames) THEN <<>>
    ELSE LET fr == frames[depth + 1]  n == Len(fr.kvs) IN
         IF fr.selected = -1 THEN [i \in 1..n |-> <<depth, i - 1>>]
         ELSE [i \in 1..(fr.selected + 1) |-> <<depth, i - 1>>] \o Walk(frames, depth + 1)
              \o [i \in 1..(n - fr.selected - 1) |-> <<depth, fr.selected + i>>]
TotalIndexIsWalk ==
    last.err # "" \/ \A i \in 0..(TotalLen(last.frames) - 1) :
        LET r == TotalIndex(last.frames, i) w == Walk(last.frames, 0) IN
        r.k = "some" /\ i + 1 <= Len(w) /\ <<r.depth, r.pos>> = w[i + 1]

Export == hist # <<>> =>
    PrintT(ToJson([tree |-> tree, limit |-> limit, hist |-> hist, err |-> last.err, frames |-> last.frames,
                   nframes |-> Len(path), total |-> TotalLen(last.frames),
                   ti |-> [i \in 1..(TotalLen(last.frames) + 3) |-> TotalIndex(last.frames, i - 1)]]))
=============================================================================

CONSTANT Tier = "thorough"
SPECIFICATION Spec
INVARIANT NoPanic TotalIndexDense TotalIndexIsWalk Export
CONSTRAINT PathBound
VIEW View
CHECK_DEADLOCK FALSE

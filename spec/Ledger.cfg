SPECIFICATION Spec
INVARIANT SecondRunOk CompatibleEvolutionOk BreakingChangeRejected FirstRunOk Export RevExport
CHECK_DEADLOCK FALSE

------------------------------- MODULE Ledger -------------------------------
(***************************************************************************)
(* C15: the interface-compatibility ledger (verify_compatiblity).          *)
(*                                                                         *)
(* A REVISION is the source of an exported interface at some point of its  *)
(* life: latest version + methods (name, argument type histories, return   *)
(* type history, async flag).  The ledger directory maps a version number  *)
(* to the definition that was stored when that version was first seen.     *)
(* One run over revision r performs, for v = 0 .. latest(r) in this order, *)
(*     Verify(v)  if a file for v exists: def(r, v) must be backward       *)
(*                compatible with the stored definition, else the run      *)
(*                fails at once                                            *)
(*     Create(v)  otherwise: store def(r, v)                               *)
(* A HISTORY is a sequence of runs over successive revisions.              *)
(***************************************************************************)
EXTENDS EvoOps, Schema, Json, SequencesExt

NoAs == P("unit")
AAdd(f) == FA(f, INF, "no", "default", FALSE, 1, 0, NoAs)
U8 == P("u8")  U16 == P("u16")  U32 == P("u32")  U64 == P("u64")
H  == StructA("Rust", <<U8, U16>>, <<Plain, AAdd(1)>>)            \* gains a versioned field at 1
E  == Enum("", <<Var(0, <<>>), Var(0, <<U8>>), Var(2, <<>>)>>)    \* gains a variant at 2

\* nest: the method additionally takes a boxed object of a NESTED exported interface  Lis { fn on(&self, p1, .., pn) }
\*       whose parameter types are these histories  (<<>> = no such argument)
Mth(name, args, ret, asy) == [name |-> name, args |-> args, ret |-> ret, asy |-> asy, nest |-> <<>>]
MthN(name, nest) == [Mth(name, <<>>, U8, FALSE) EXCEPT !.nest = nest]
Rev(id, latest, ms) == [id |-> id, latest |-> latest, ms |-> ms]
Add   == Mth("add", <<U32, U32>>, U32, FALSE)
Get   == Mth("get", <<H>>, U8, FALSE)
En    == Mth("en", <<E>>, E, FALSE)
Extra == Mth("extra", <<U8>>, U8, FALSE)
AAddM == Mth("add", <<U32, U32>>, U32, TRUE)
AMore == Mth("more", <<U8>>, U8, TRUE)

R0 == Rev("r0", 0, <<Add, Get, En>>)
R1 == Rev("r1", 1, <<Add, Get, En, Extra>>)                     \* new method, new versioned field
R2 == Rev("r2", 2, <<Add, Get, En, Extra>>)                     \* new enum variant
B1 == Rev("b1", 1, <<Add, En, Extra>>)                          \* method removed
B2 == Rev("b2", 1, <<Mth("add", <<U32>>, U32, FALSE), Get, En>>)          \* argument count changed
B3 == Rev("b3", 1, <<Mth("add", <<U32, U64>>, U32, FALSE), Get, En>>)     \* argument type changed
B4 == Rev("b4", 1, <<Mth("add", <<U32, U32>>, U64, FALSE), Get, En>>)     \* return type changed
B5 == Rev("b5", 2, <<Add, Mth("get", <<StructA("Rust", <<U8, U16>>, <<Plain, Plain>>)>>, U8, FALSE), En, Extra>>)  \* field added WITHOUT a version
A0 == Rev("a0", 0, <<AAddM>>)                                   \* async interface
A1 == Rev("a1", 1, <<AAddM, AMore>>)
\* an interface whose method takes an object of a nested interface that uses the evolving type H
N0 == Rev("n0", 0, <<Add, MthN("sub", <<H>>)>>)
N1 == Rev("n1", 1, <<Add, MthN("sub", <<H>>)>>)                    \* H gains its versioned field: compatible
NB == Rev("nb", 1, <<Add, MthN("sub", <<U32>>)>>)                  \* the nested method's parameter type changes: breaking
\* an enum of an argument / of the return type gains a trailing variant WITHOUT a version: every recorded version changes
EU == Enum("", <<Var(0, <<>>), Var(0, <<U8>>), Var(0, <<>>)>>)
B6 == Rev("b6", 1, <<Add, Get, Mth("en", <<EU>>, E, FALSE), Extra>>)
B7 == Rev("b7", 1, <<Add, Get, Mth("en", <<E>>, EU, FALSE), Extra>>)
Revs == {R0, R1, R2, B1, B2, B3, B4, B5, B6, B7, A0, A1, N0, N1, NB}

\* successor relation: compatible evolution / breaking change
Compat   == {<<R0, R1>>, <<R1, R2>>, <<R0, R2>>, <<A0, A1>>, <<N0, N1>>}
Breaking == {<<R0, B1>>, <<R1, B1>>, <<R0, B2>>, <<R0, B3>>, <<R0, B4>>, <<R1, B5>>, <<R2, B5>>, <<R1, B2>>, <<N0, NB>>, <<N1, NB>>,
             <<R0, B6>>, <<R1, B6>>, <<R0, B7>>, <<R1, B7>>}

\* the definition of revision r as seen at version v: schemas of the argument / return types AT v
Def(r, v) == [n \in 1..Len(r.ms) |->
                [name |-> r.ms[n].name, asy |-> r.ms[n].asy,
                 args |-> [k \in 1..Len(r.ms[n].args) |-> Erase(SchemaOf(r.ms[n].args[k], v))],
                 ret |-> Erase(SchemaOf(r.ms[n].ret, v)),
                 nest |-> [k \in 1..Len(r.ms[n].nest) |-> Erase(SchemaOf(r.ms[n].nest[k], v))]]]
\* what a stored definition retains of the definition that was written
Stored(d) == d

BackCompat(new, old) ==
    \A o \in 1..Len(old) :
        \E n \in 1..Len(new) :
            /\ new[n].name = old[o].name
            /\ new[n].asy = old[o].asy
            /\ Len(new[n].args) = Len(old[o].args)
            /\ ~Diff(new[n].ret, old[o].ret)
            /\ \A k \in 1..Len(old[o].args) : ~Diff(new[n].args[k], old[o].args[k])
            /\ Len(new[n].nest) = Len(old[o].nest)
            /\ \A k \in 1..Len(old[o].nest) : ~Diff(new[n].nest[k], old[o].nest[k])

VARIABLES hist,     \* the revisions still to run (sequence)
          dir,      \* version -> stored definition (function on a set of versions)
          cur,      \* revision being run, or NoRev
          v,        \* next version of the current run
          results,  \* outcome of each finished run: "ok" | "err"
          done      \* the revisions run so far
vars == <<hist, dir, cur, v, results, done>>
NoRev == Rev("none", -1, <<>>)

Chains == {<<a>> : a \in Revs}
          \cup {<<a, b>> : a \in Revs, b \in Revs}
          \cup {<<a, b, c>> : a \in {R0, A0, N0}, b \in {R0, R1, A0, A1, N0, N1}, c \in Revs}
Related(a, b) == a = b \/ <<a, b>> \in Compat \/ <<a, b>> \in Breaking
ValidChain(c) == \A n \in 1..(Len(c) - 1) : Related(c[n], c[n + 1])

Init == /\ hist \in {c \in Chains : ValidChain(c)}
        /\ dir = [x \in {} |-> <<>>] /\ cur = NoRev /\ v = 0 /\ results = <<>> /\ done = <<>>

StartRun == /\ cur = NoRev /\ hist # <<>>
            /\ cur' = Head(hist) /\ hist' = Tail(hist) /\ v' = 0
            /\ UNCHANGED <<dir, results, done>>
Verify   == /\ cur # NoRev /\ v <= cur.latest /\ v \in DOMAIN dir
            /\ IF BackCompat(Def(cur, v), dir[v])
               THEN v' = v + 1 /\ UNCHANGED <<cur, results, done>>
               ELSE /\ results' = Append(results, "err") /\ done' = Append(done, cur.id) /\ cur' = NoRev /\ v' = 0
            /\ UNCHANGED <<hist, dir>>
Create   == /\ cur # NoRev /\ v <= cur.latest /\ v \notin DOMAIN dir
            /\ dir' = [x \in DOMAIN dir \cup {v} |-> IF x = v THEN Stored(Def(cur, v)) ELSE dir[x]]
            /\ v' = v + 1 /\ UNCHANGED <<hist, cur, results, done>>
EndRun   == /\ cur # NoRev /\ v > cur.latest
            /\ results' = Append(results, "ok") /\ done' = Append(done, cur.id) /\ cur' = NoRev /\ v' = 0
            /\ UNCHANGED <<hist, dir>>
Next == StartRun \/ Verify \/ Create \/ EndRun
Spec == Init /\ [][Next]_vars

Finished == cur = NoRev /\ hist = <<>>
RevOf(id) == CHOOSE r \in Revs : r.id = id
\* an unchanged interface passes every later run
SecondRunOk == \A n \in 2..Len(results) : (done[n] = done[n - 1] /\ results[n - 1] = "ok") => results[n] = "ok"
\* compatible evolution is accepted (as long as everything before was accepted)
CompatibleEvolutionOk ==
    \A n \in 2..Len(results) :
        (<<RevOf(done[n - 1]), RevOf(done[n])>> \in Compat /\ \A m \in 1..(n - 1) : results[m] = "ok") => results[n] = "ok"
\* a change that breaks a recorded version is reported
BreakingChangeRejected ==
    \A n \in 2..Len(results) :
        (<<RevOf(done[n - 1]), RevOf(done[n])>> \in Breaking /\ results[n - 1] = "ok") => results[n] = "err"
FirstRunOk == Len(results) >= 1 => results[1] = "ok"

Export == Finished => PrintT(ToJson([kind |-> "ledger", runs |-> done, results |-> results,
                                     files |-> SetToSeq(DOMAIN dir)]))
RevExport == (cur = NoRev /\ done = <<>> /\ Len(hist) = 1) =>
    PrintT(ToJson([kind |-> "revision", id |-> hist[1].id, latest |-> hist[1].latest,
                   methods |-> [n \in 1..Len(hist[1].ms) |->
                       [name |-> hist[1].ms[n].name, asy |-> hist[1].ms[n].asy,
                        args |-> [k \in 1..Len(hist[1].ms[n].args) |-> DefAt(hist[1].ms[n].args[k], hist[1].latest)],
                        ret |-> DefAt(hist[1].ms[n].ret, hist[1].latest),
                        nest |-> [k \in 1..Len(hist[1].ms[n].nest) |-> DefAt(hist[1].ms[n].nest[k], hist[1].latest)]]]]))
=============================================================================

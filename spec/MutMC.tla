------------------------------- MODULE MutMC -------------------------------
(***************************************************************************)
(* Malformed input (C06) and truncation (C07, payload level).              *)
(*                                                                         *)
(* Init ranges over (subject type, value, mutation of the valid encoding); *)
(* the reader performs one read call per step; the terminal state carries  *)
(* the specification's outcome.  The specification is deterministic, so    *)
(* every input has exactly one expected outcome, exported for replay.      *)
(***************************************************************************)
EXTENDS WireVals, Json

CONSTANT Tier

U8 == P("u8")
Subjects ==
    {P(n) : n \in {"u8", "u32", "bool", "char", "u128", "usize", "f32"}}
    \cup {Str, Lib("ArcStr"), Lib("PathBuf"), Lib("IpAddr"), Lib("SocketAddr"), Lib("Duration"), Lib("SystemTime"),
          Lib("IoError"), Lib("Canary1"), Lib("DateTimeUtc"), Lib("BitVec"), Lib("BitVec08"), Lib("AtomicBool")}
    \cup {Vec(k, t) : k \in {"Vec", "VecDeque", "BoxSlice", "SmallVec", "ArrayVec", "BTreeSet", "HashSet", "BinaryHeap"},
                      t \in {U8, P("u32"), Str}}
    \cup {Vec("Vec", t) : t \in {P("bool"), P("char"), P("u16"), Opt(U8), Tup(<<U8, P("u16")>>), Tup(<<U8, U8>>),
                                 Vec("Vec", U8), Struct("C", <<U8, U8>>), Struct("C", <<U8, P("u32")>>),
                                 Enum("u8", <<Var(0, <<>>), Var(0, <<>>)>>), Enum("", <<Var(0, <<>>), Var(0, <<U8>>)>>)}}
    \cup {Arr(t, 3) : t \in {U8, P("bool"), P("char"), P("u16"), Str}}
    \cup {Opt(U8), Opt(Str), Res(U8, Str), Res(P("u32"), Lib("IoError")), Bx("Box", Str), Tup(<<U8, Str, P("u16")>>)}
    \cup {Map(k, a, b) : k \in {"BTreeMap", "HashMap", "IndexMap"}, a \in {U8, Str}, b \in {P("u16")}}
    \cup {Struct(r, <<U8, Str, P("u32")>>) : r \in {"Rust", "C"}}
    \cup {Struct("C", <<P("bool"), P("char")>>), Struct("C", <<Vec("Vec", U8), Opt(P("u32"))>>)}
    \cup {Enum(r, <<Var(0, <<>>), Var(0, <<U8>>), Var(0, <<Str, P("u16")>>)>>) : r \in {"", "u8", "u16", "u32"}}
    \cup {BigEnum("", 257)}

\* positions / replacement bytes
Repl == {0, 1, 2, 127, 128, 255}
\* (2^24 rather than 2^32 as the "large but allocatable" length: hash containers initialise their whole capacity)
Pat8 == { <<255,255,255,255,255,255,255,255>>, <<0,0,0,1,0,0,0,0>>, <<0,0,0,0,0,0,0,64>>, <<255,255,255,255,255,255,255,127>>,
          <<0,0,0,0,0,0,0,128>> }

\* mutation = [k, p, b, bs]
Mu(k, p, b, bs) == [k |-> k, p |-> p, b |-> b, bs |-> bs]
Mutations(enc) ==
    {Mu("none", 0, 0, <<>>)}
    \cup {Mu("cut", p, 0, <<>>) : p \in 0..(Len(enc) - 1)}
    \cup {Mu("byte", p, b, <<>>) : p \in 1..Len(enc), b \in Repl}
    \cup {Mu("over8", p, 0, bs) : p \in 1..(Len(enc) - 7), bs \in Pat8}
    \cup {Mu("append", 0, b, <<>>) : b \in {0, 255}}
Apply(enc, m) ==
    CASE m.k = "none" -> enc
      [] m.k = "cut"  -> SubSeq(enc, 1, m.p)
      [] m.k = "byte" -> [i \in 1..Len(enc) |-> IF i = m.p THEN m.b ELSE enc[i]]
      [] m.k = "over8"-> [i \in 1..Len(enc) |-> IF i >= m.p /\ i < m.p + 8 THEN m.bs[i - m.p + 1] ELSE enc[i]]
      [] m.k = "append" -> Append(enc, m.b)

\* short arbitrary strings (no valid encoding to start from)
Alphabet == {0, 1, 2, 255}
Short == UNION {[1..n -> Alphabet] : n \in 0..(IF Tier = "thorough" THEN 4 ELSE 3)}

VARIABLES t, inp, mut, rd, ri, phase
vars == <<t, inp, mut, rd, ri, phase>>

ValsCap(ty) == LET vals == Vals(ty) IN {vals[i] : i \in 1..(IF Len(vals) > 3 THEN 3 ELSE Len(vals))}
NoRd == R(FALSE, Unit, 0, "", <<>>)
NoMut == Mu("pending", 0, 0, <<>>)

\* the initial states only choose the subject and the valid encoding; the mutation is chosen by an action
\* (so that TLC's workers share the work)
Init ==
    /\ t \in Subjects
    /\ \/ \E v \in ValsCap(t) : inp = Enc(t, v, 0) /\ phase = "valid"
       \/ inp = <<>> /\ phase = "raw"
    /\ mut = NoMut /\ rd = NoRd /\ ri = 0
Mutate ==
    /\ phase = "valid"
    /\ \E m \in Mutations(inp) :
          /\ mut' = m
          /\ inp' = Apply(inp, m)
          /\ rd' = Dec(t, Apply(inp, m), 0, 0)
    /\ phase' = "read" /\ UNCHANGED <<t, ri>>
Arbitrary ==
    /\ phase = "raw"
    /\ \E s \in Short : inp' = s /\ rd' = Dec(t, s, 0, 0)
    /\ mut' = Mu("raw", 0, 0, <<>>)
    /\ phase' = "read" /\ UNCHANGED <<t, ri>>
RCall == /\ phase = "read" /\ ri < Len(rd.reads) /\ ri' = ri + 1 /\ UNCHANGED <<t, inp, mut, rd, phase>>
RDone == /\ phase = "read" /\ ri = Len(rd.reads) /\ phase' = "done" /\ UNCHANGED <<t, inp, mut, rd, ri>>
Next == Mutate \/ Arbitrary \/ RCall \/ RDone
Spec == Init /\ [][Next]_vars

Done == phase = "done"
\* C06 on the specification: total, never more bytes consumed than present, a returned value re-encodes to
\* no more bytes than were consumed (it cannot claim more than the input encoded)
Total        == Done => (rd.ok \/ rd.err # "")
Bounded      == Done /\ rd.ok => rd.pos <= Len(inp) /\ Len(Enc(t, rd.v, 0)) <= rd.pos
\* C07 (payload level): a strict prefix of a valid encoding is never accepted
CutRejected  == Done /\ mut.k = "cut" => ~rd.ok
\* unmutated encodings load
ValidAccepted == Done /\ mut.k = "none" => rd.ok /\ rd.pos = Len(inp)

Export == Done => PrintT(ToJson([t |-> t, ver |-> 0, inp |-> inp, mut |-> mut.k, ok |-> rd.ok, err |-> rd.err,
                                 pos |-> rd.pos, v |-> rd.v]))
=============================================================================

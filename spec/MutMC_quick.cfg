CONSTANT Tier = "quick"
SPECIFICATION Spec
INVARIANT Total Bounded CutRejected ValidAccepted Export
CHECK_DEADLOCK FALSE

CONSTANT Tier = "thorough"
SPECIFICATION Spec
INVARIANT Total Bounded CutRejected ValidAccepted Export
CHECK_DEADLOCK FALSE

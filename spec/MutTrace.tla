------------------------------ MODULE MutTrace ------------------------------
(***************************************************************************)
(* impl -> spec validation for C06 / C07 (payload level).                  *)
(* Observation: the input TLC generated (MutMC), the specification's       *)
(* outcome, and what the REAL reader did with it:                          *)
(*   real  : "ok" | "err" | "panic" | "died"                               *)
(*   reser : the loaded value serialized again by the real code            *)
(*   oom   : the panic / abort message is an allocation failure            *)
(***************************************************************************)
EXTENDS Wire, Json, IOUtils

Obs == ndJsonDeserialize(IOEnv.OBS)

Judge(o) ==
    IF o.real \in {"panic", "died"} THEN
         \* the only excused abnormal termination: genuine allocation failure on an absurd declared length
         IF o.err = "eof-or-alloc" /\ o.oom THEN "ok" ELSE "panic-or-abort"
    ELSE IF o.real = "err" THEN "ok"
    ELSE \* the real reader returned a value
         \* (C06 does not say WHICH of value / error malformed input must give: only what a returned value must be)
         LET d == Dec(o.t, o.reser, 0, o.ver) IN
              IF ~d.ok \/ d.pos # Len(o.reser) \/ Enc(o.t, d.v, o.ver) # o.reser
              THEN "returned-value-is-not-a-value-of-the-type"
              ELSE IF Len(o.reser) > Len(o.inp) THEN "returned-value-claims-more-than-the-input-encodes"
              \* a strict prefix of a valid encoding is never accepted (C07, payload level)
              ELSE IF o.mut = "cut" THEN "truncated-input-accepted"
              ELSE "ok"

VARIABLES idx, phase, verdict
vars == <<idx, phase, verdict>>
Init == idx \in 1..Len(Obs) /\ phase = "pending" /\ verdict = "pending"
Step == phase = "pending" /\ phase' = "judged" /\ idx' = idx /\ verdict' = Judge(Obs[idx])
Spec == Init /\ [][Step]_vars
Report == (phase = "judged" /\ verdict # "ok") => PrintT(ToJson([i |-> idx, verdict |-> verdict]))
=============================================================================

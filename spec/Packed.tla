------------------------------- MODULE Packed -------------------------------
(***************************************************************************)
(* C04: "A type is treated as bulk-copyable at a version only if its       *)
(* in-memory image has no padding, has its fields in wire order and is     *)
(* byte-for-byte identical to its field-by-field encoding at that version" *)
(*                                                                         *)
(* TrulyPacked(t, lt, ver) is that semantic criterion, evaluated on a      *)
(* layout tree lt OBSERVED from the real type (size_of / align_of /        *)
(* offset_of; rustc's layout is an input, never a guess):                  *)
(*    lt = [sz, al, offs, kids]                                            *)
(*    struct / tuple : offs[i], kids[i] for every declared field           *)
(*    array, Cell    : kids[1] the element                                 *)
(*    enum           : kids[i] one node per variant whose kids are the     *)
(*                     variant's fields (offsets follow from the explicit  *)
(*                     repr: tag first, then the fields as a repr(C)       *)
(*                     struct)                                             *)
(* PackedTrace validates recorded observations [t, ver, packed, lt]:       *)
(* packed => TrulyPacked.                                                  *)
(***************************************************************************)
EXTENDS Wire, Json, IOUtils

AlignUp(x, a) == IF a <= 1 THEN x ELSE ((x + a - 1) \div a) * a

\* does the field occupy memory in the struct?  (Removed / AbiRemoved are zero sized)
InMemory(a) == a.rm = "no"

RECURSIVE TrulyPacked(_, _, _)
\* fields (ts, fa) laid out at offs with layouts kids inside [start, endsz): contiguous, in wire order,
\* memory fields = wire fields at ver
FieldsPacked(ts, fa, offs, kids, start, endsz, ver) ==
    LET n == Len(ts)
        \* running end of the previous field
        RECURSIVE Chain(_, _)
        Chain(i, pos) ==
            IF i > n THEN pos = endsz
            ELSE /\ ~fa[i].ig
                 \* what is on the wire at ver must be in memory, byte for byte
                 /\ Present(fa[i], ver) => (InMemory(fa[i]) /\ TrulyPacked(ts[i], kids[i], ver))
                 /\ IF kids[i].sz = 0 THEN Chain(i + 1, pos)          \* zero-sized: contributes no bytes wherever it sits
                    ELSE /\ offs[i] = pos                              \* no padding before it, declaration (= wire) order
                         /\ Present(fa[i], ver)                        \* what is in memory must be on the wire at ver
                         /\ Chain(i + 1, pos + kids[i].sz)
    IN Chain(1, start)

\* offsets of a variant's fields under an explicit repr(uN): repr(C) struct { tag: uN, f1, f2, ... }
RECURSIVE COffs(_, _, _)
COffs(kids, i, pos) ==
    IF i > Len(kids) THEN <<>>
    ELSE LET o == AlignUp(pos, kids[i].al) IN <<o>> \o COffs(kids, i + 1, o + kids[i].sz)

TrulyPacked(t, lt, ver) ==
    CASE t.k = "p" -> lt.sz = PrimWidth(t.s)
      [] t.k = "arr" -> lt.sz = t.n * lt.kids[1].sz /\ (t.n = 0 \/ TrulyPacked(t.ts[1], lt.kids[1], ver))
      [] t.k = "tup" -> FieldsPacked(t.ts, [i \in 1..Len(t.ts) |-> Plain], lt.offs, lt.kids, 0, lt.sz, ver)
      [] t.k = "struct" -> FieldsPacked(t.ts, t.fa, lt.offs, lt.kids, 0, lt.sz, ver)
      [] t.k = "box" /\ t.s = "Cell" -> lt.sz = lt.kids[1].sz /\ TrulyPacked(t.ts[1], lt.kids[1], ver)
      [] t.k = "enum" ->
            IF t.s = "" THEN FALSE                      \* default repr: layout unspecified, never provably identical
            ELSE IF t.n > 0 THEN lt.sz = DiscrWidth(t)  \* field-less variants only, implicit discriminants = index
            ELSE LET w == DiscrWidth(t) IN
                 \A i \in 1..Len(t.ts) :
                    LET var == t.ts[i]  vl == lt.kids[i] IN
                    /\ var.s \in {"", "{}"}                 \* memory tag = declared value must equal wire tag = index
                    /\ var.n <= ver
                    /\ FieldsPacked(var.ts, var.fa, COffs(vl.kids, 1, w), vl.kids, w, lt.sz, ver)
      [] t.k = "lib" /\ t.s = "PhantomData" -> lt.sz = 0
      [] OTHER -> FALSE

(* ------------------------------------------------------------------ *)
(* Trace validation                                                    *)
(* ------------------------------------------------------------------ *)
Obs == ndJsonDeserialize(IOEnv.OBS)
VARIABLES idx, phase, verdict
vars == <<idx, phase, verdict>>
Init == idx \in 1..Len(Obs) /\ phase = "pending" /\ verdict = "pending"
Step == /\ phase = "pending" /\ phase' = "judged" /\ idx' = idx
        /\ verdict' = LET o == Obs[idx] IN
                      IF o.packed /\ ~TrulyPacked(o.t, o.lt, o.ver) THEN "packed-but-not-truly-packed"
                      ELSE IF o.packed THEN "ok-packed" ELSE "ok-not-packed"
Spec == Init /\ [][Step]_vars
Report == phase = "judged" => PrintT(ToJson([i |-> idx, verdict |-> verdict]))
=============================================================================

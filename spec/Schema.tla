------------------------------- MODULE Schema -------------------------------
(***************************************************************************)
(* Schema trees, the schema a type definition ought to have (SchemaOf),    *)
(* a generic reader driven ONLY by a schema (ParseBySchema), the token     *)
(* stream a value has on the wire (TokensOf), the schema comparison        *)
(* (Diff, transcribed from diff_schema) and its oracles (SameTree,         *)
(* SameFlat), the by-reference compatibility rule (LayoutCompat) and its   *)
(* oracle (SameLayout).                                                    *)
(*                                                                         *)
(* Schema node (uniform record):                                           *)
(*   [k, s, n, ts, sz, al, off, lay, er, nm]                               *)
(*   k   kind: "prim" "vector" "array" "option" "struct" "enum" "variant"  *)
(*       "zero" "boxed" "recursion" "ioerror" "utc" "undefined" "custom"   *)
(*       "slice" "str" "ref" "uninit" "other"                              *)
(*       and the nodes savefile-abi puts into schemas:                     *)
(*       "trait" (n = flag, ts = <<traitdef>>), "fnclosure" (likewise),    *)
(*       "future" (n = send + 2 sync + 4 unpin, ts = <<traitdef>>),        *)
(*       "traitdef" (s = name, n = sync + 2 send, ts = methods),           *)
(*       "method" (s = name, n = receiver (0 &self, 1 &mut self, 2 Pin)    *)
(*                 + 4 * async flag, ts = <<return>> \o arguments)         *)
(*   s   primitive name / struct, enum, variant name / custom string       *)
(*   n   array count / enum discriminant size / variant discriminant /     *)
(*       recursion depth                                                   *)
(*   ts  children (fields, variants, element)                              *)
(*   sz, al, off : size, alignment, field offset  (-1 = unknown / None)    *)
(*   lay : VecOrStringLayout name ("" if not applicable)                   *)
(*   er  : has_explicit_repr                                               *)
(*   nm  : the name under which this node is a FIELD of its parent         *)
(***************************************************************************)
EXTENDS Wire

SN(k, s, n, ts) == [k |-> k, s |-> s, n |-> n, ts |-> ts, sz |-> -1, al |-> -1, off |-> -1, lay |-> "", er |-> FALSE, nm |-> ""]
SNL(k, s, n, ts, sz, al, off, lay, er) ==
    [k |-> k, s |-> s, n |-> n, ts |-> ts, sz |-> sz, al |-> al, off |-> off, lay |-> lay, er |-> er, nm |-> ""]
Named(x, name) == [x EXCEPT !.nm = name]

SPrim(name)     == SN("prim", name, 0, <<>>)
SVector(e)      == SN("vector", "", 0, <<e>>)
SArray(e, n)    == SN("array", "", n, <<e>>)
SOption(e)      == SN("option", "", 0, <<e>>)
SStruct(nm, fs) == SN("struct", nm, 0, fs)
SVariant(nm, d, fs) == SN("variant", nm, d, fs)
SEnum(nm, w, vs)== SN("enum", nm, w, vs)
SZero           == SN("zero", "", 0, <<>>)

(* ------------------------------------------------------------------ *)
(* SchemaOf : the schema a definition ought to report at a version     *)
(* ------------------------------------------------------------------ *)
PrimSchemaName(p) ==
    CASE p = "usize" -> "u64" [] p = "isize" -> "i64" [] OTHER -> p

RECURSIVE SchemaOf(_, _)
SchemaFields(ts, fa, ver) ==
    \* fields whose own range or whose versions_as range contains ver, in declaration order
    Flat([i \in 1..Len(ts) |->
            IF fa[i].ig THEN <<>>
            ELSE IF InAs(fa[i], ver) THEN <<SchemaOf(fa[i].asty, ver)>>
            ELSE IF fa[i].from <= ver /\ ver <= fa[i].to THEN <<SchemaOf(ts[i], ver)>>
            ELSE <<>>])

LibSchema(name, ver) ==
    CASE name \in {"ArcStr", "PathBuf", "ArrayString"} -> SPrim("string")
      [] name = "IpAddr" -> SEnum("IpAddr", 1, <<SVariant("IPV4", 0, <<SPrim("u32")>>), SVariant("IPV6", 1, <<SPrim("u128")>>)>>)
      [] name = "SocketAddr" -> SEnum("SocketAddr", 1,
                                  <<SVariant("IPV4", 0, <<SPrim("u16"), SPrim("u32")>>),
                                    SVariant("IPV6", 1, <<SPrim("u16"), SPrim("u128"), SPrim("u32"), SPrim("u32")>>)>>)
      [] name \in {"Duration", "SystemTime"} -> SStruct(name, <<SPrim("u128")>>)
      [] name = "IoError" -> SN("ioerror", "", 0, <<>>)
      [] name = "Canary1" -> SPrim("canary1")
      [] name = "DateTimeUtc" -> SN("utc", "", 0, <<>>)
      [] name \in BitKinds -> SStruct("BitVec", <<SPrim("u64"), SPrim("u64"), SN("rawbytes", "", 0, <<>>)>>)
      [] name = "PhantomData" -> SZero
      [] OTHER -> SchemaOf(LibEquiv(name), ver)

SchemaOf(t, ver) ==
    CASE t.k = "p"   -> IF t.s = "unit" THEN SZero ELSE SPrim(PrimSchemaName(t.s))
      [] t.k = "str" -> SPrim("string")
      [] t.k = "vec" -> SVector(SchemaOf(t.ts[1], ver))
      [] t.k = "arr" -> SArray(SchemaOf(t.ts[1], ver), t.n)
      [] t.k = "opt" -> SOption(SchemaOf(t.ts[1], ver))
      [] t.k = "res" -> SEnum("Result", 1, <<SVariant("Err", 0, <<SchemaOf(t.ts[2], ver)>>),
                                             SVariant("Ok", 1, <<SchemaOf(t.ts[1], ver)>>)>>)
      [] t.k = "box" -> SchemaOf(t.ts[1], ver)
      [] t.k = "tup" -> SStruct("tuple", [i \in 1..Len(t.ts) |-> SchemaOf(t.ts[i], ver)])
      [] t.k = "map" -> SVector(SStruct("KeyValuePair", <<SchemaOf(t.ts[1], ver), SchemaOf(t.ts[2], ver)>>))
      [] t.k = "struct" -> SStruct("struct", SchemaFields(t.ts, t.fa, ver))
      [] t.k = "enum" ->
            IF t.n > 0 THEN SEnum("enum", DiscrWidth(t), [i \in 1..t.n |-> SVariant("V", (i - 1) % 256, <<>>)])
            ELSE SEnum("enum", DiscrWidth(t),
                       Flat([i \in 1..Len(t.ts) |->
                               IF t.ts[i].n <= ver
                               THEN <<SVariant("V", (i - 1) % 256, SchemaFields(t.ts[i].ts, t.ts[i].fa, ver))>>
                               ELSE <<>>]))
      [] t.k = "lib" -> LibSchema(t.s, ver)

(* ------------------------------------------------------------------ *)
(* Tokens: the structure a value has on the wire, flattened            *)
(*   [k, a, b]  "p" width        primitive of that width               *)
(*              "s" length       string                                *)
(*              "n" length       sequence length prefix                *)
(*              "o" tag          option tag                            *)
(*              "d" discr width  enum / result tag                     *)
(* struct, tuple and array grouping is not part of the token stream    *)
(* ------------------------------------------------------------------ *)
Tok(k, a, b) == [k |-> k, a |-> a, b |-> b]

RECURSIVE TokensOf(_, _, _)
TokFields(ts, fa, vs, ver) ==
    Flat([i \in 1..Len(ts) |->
            IF ~Present(fa[i], ver) THEN <<>>
            ELSE IF fa[i].rm = "abi" THEN TokensOf(ts[i], DefaultOf(ts[i]), ver)
            ELSE TokensOf(ts[i], vs[i], ver)])
TokensOf(t, v, ver) ==
    CASE t.k = "p"    -> IF PrimWidth(t.s) = 0 THEN <<>> ELSE <<Tok("p", PrimWidth(t.s), 0)>>
      [] t.k = "rawbytes" -> <<Tok("raw", Len(v.bs), 0)>>
      [] t.k = "str"  -> <<Tok("s", Len(v.bs), 0)>>
      [] t.k = "vec"  -> <<Tok("n", Len(v.vs), 0)>> \o Flat([i \in 1..Len(v.vs) |-> TokensOf(t.ts[1], v.vs[i], ver)])
      [] t.k = "arr"  -> Flat([i \in 1..Len(v.vs) |-> TokensOf(t.ts[1], v.vs[i], ver)])
      [] t.k = "opt"  -> IF v.n = 0 THEN <<Tok("o", 0, 0)>> ELSE <<Tok("o", 1, 0)>> \o TokensOf(t.ts[1], v.vs[1], ver)
      [] t.k = "res"  -> <<Tok("d", v.n, 1)>> \o TokensOf(t.ts[IF v.n = 1 THEN 1 ELSE 2], v.vs[1], ver)
      [] t.k = "box"  -> TokensOf(t.ts[1], v, ver)
      [] t.k = "tup"  -> Flat([i \in 1..Len(t.ts) |-> TokensOf(t.ts[i], v.vs[i], ver)])
      [] t.k = "map"  -> <<Tok("n", Len(v.vs) \div 2, 0)>> \o
                         Flat([i \in 1..Len(v.vs) |-> TokensOf(t.ts[IF i % 2 = 1 THEN 1 ELSE 2], v.vs[i], ver)])
      [] t.k = "struct" -> TokFields(t.ts, t.fa, v.vs, ver)
      [] t.k = "enum" ->
            IF t.n > 0 THEN <<Tok("d", v.n, DiscrWidth(t))>>
            ELSE <<Tok("d", v.n, DiscrWidth(t))>> \o TokFields(t.ts[v.n + 1].ts, t.ts[v.n + 1].fa, v.vs, ver)
      [] t.k = "lib"  -> TokensOf(LibEquiv(t.s), v, ver)

(* ------------------------------------------------------------------ *)
(* ParseBySchema : a generic reader driven only by the schema          *)
(*   result [ok, pos, toks, err]                                       *)
(* ------------------------------------------------------------------ *)
PR(ok, pos, toks, err) == [ok |-> ok, pos |-> pos, toks |-> toks, err |-> err]

SPrimWidth(name) ==
    CASE name \in {"u8", "i8", "bool"} -> 1
      [] name \in {"u16", "i16"} -> 2
      [] name \in {"u32", "i32", "f32", "char", "canary1"} -> 4
      [] name \in {"u64", "i64", "f64"} -> 8
      [] name \in {"u128", "i128"} -> 16
      [] OTHER -> -1

RECURSIVE Parse(_, _, _)
RECURSIVE ParseSeq(_, _, _, _, _)
ParseSeq(ss, i, inp, pos, acc) ==
    IF i > Len(ss) THEN PR(TRUE, pos, acc, "")
    ELSE LET r == Parse(ss[i], inp, pos) IN
         IF ~r.ok THEN r ELSE ParseSeq(ss, i + 1, inp, r.pos, acc \o r.toks)
RECURSIVE ParseRep(_, _, _, _, _)
ParseRep(s, cnt, inp, pos, acc) ==
    IF cnt = 0 THEN PR(TRUE, pos, acc, "")
    ELSE LET r == Parse(s, inp, pos) IN
         IF ~r.ok THEN r ELSE ParseRep(s, cnt - 1, inp, r.pos, acc \o r.toks)

NeedBytes(inp, pos, n) == pos + n <= Len(inp)

Parse(s, inp, pos) ==
    CASE s.k = "prim" /\ s.s = "string" ->
            IF ~NeedBytes(inp, pos, 8) THEN PR(FALSE, pos, <<>>, "eof in string length")
            ELSE LET lb == Take(inp, pos, 8) IN
                 IF ~LenSmall(lb) \/ ~NeedBytes(inp, pos + 8, FromLE(SubSeq(lb, 1, 3)))
                 THEN PR(FALSE, pos, <<>>, "string length exceeds data")
                 ELSE LET n == FromLE(SubSeq(lb, 1, 3)) IN PR(TRUE, pos + 8 + n, <<Tok("s", n, 0)>>, "")
      [] s.k = "prim" /\ s.s # "string" ->
            LET w == SPrimWidth(s.s) IN
            IF w < 0 THEN PR(FALSE, pos, <<>>, "unknown primitive")
            ELSE IF ~NeedBytes(inp, pos, w) THEN PR(FALSE, pos, <<>>, "eof in primitive")
            ELSE PR(TRUE, pos + w, <<Tok("p", w, 0)>>, "")
      [] s.k = "vector" ->
            IF ~NeedBytes(inp, pos, 8) THEN PR(FALSE, pos, <<>>, "eof in vector length")
            ELSE LET lb == Take(inp, pos, 8) IN
                 IF ~LenSmall(lb) \/ FromLE(SubSeq(lb, 1, 3)) > 4096 THEN PR(FALSE, pos, <<>>, "vector length exceeds data")
                 ELSE LET n == FromLE(SubSeq(lb, 1, 3)) IN
                      ParseRep(s.ts[1], n, inp, pos + 8, <<Tok("n", n, 0)>>)
      [] s.k = "array"  -> ParseRep(s.ts[1], s.n, inp, pos, <<>>)
      [] s.k = "option" ->
            IF ~NeedBytes(inp, pos, 1) THEN PR(FALSE, pos, <<>>, "eof in option tag")
            ELSE IF inp[pos + 1] = 1 THEN
                    LET r == Parse(s.ts[1], inp, pos + 1) IN
                    IF ~r.ok THEN r ELSE PR(TRUE, r.pos, <<Tok("o", 1, 0)>> \o r.toks, "")
            ELSE IF inp[pos + 1] = 0 THEN PR(TRUE, pos + 1, <<Tok("o", 0, 0)>>, "")
            ELSE PR(FALSE, pos, <<>>, "bad option tag")
      [] s.k = "struct" -> ParseSeq(s.ts, 1, inp, pos, <<>>)
      [] s.k = "enum" ->
            IF s.n \notin {1, 2, 4} THEN PR(FALSE, pos, <<>>, "bad discriminant size")
            ELSE IF ~NeedBytes(inp, pos, s.n) THEN PR(FALSE, pos, <<>>, "eof in discriminant")
            ELSE LET db == Take(inp, pos, s.n)
                     big == s.n = 4 /\ db[4] >= 128
                     d == IF big THEN -1 ELSE FromLE(db)
                     \* width 1: the variant whose .discriminant equals the tag; wider tags: by position
                     \* (the schema's per-variant discriminant is a u8)
                     cands == IF s.n = 1 THEN {i \in 1..Len(s.ts) : s.ts[i].n = d}
                              ELSE {i \in 1..Len(s.ts) : i - 1 = d} IN
                 IF Cardinality(cands) # 1 THEN PR(FALSE, pos, <<>>, "no unique variant for tag")
                 ELSE LET var == s.ts[CHOOSE i \in cands : TRUE]
                          r == ParseSeq(var.ts, 1, inp, pos + s.n, <<>>) IN
                      IF ~r.ok THEN r ELSE PR(TRUE, r.pos, <<Tok("d", d, s.n)>> \o r.toks, "")
      [] s.k = "zero"  -> PR(TRUE, pos, <<>>, "")
      [] s.k = "boxed" -> Parse(s.ts[1], inp, pos)
      [] s.k = "ioerror" -> ParseSeq(<<SPrim("u16"), SPrim("string")>>, 1, inp, pos, <<>>)
      [] s.k = "utc"   -> Parse(SPrim("i64"), inp, pos)
      [] s.k = "recursion" -> PR(FALSE, pos, <<>>, "recursion marker")
      [] OTHER -> PR(FALSE, pos, <<>>, "schema kind not a data schema: " \o s.k)

\* no recursion marker anywhere (C12, non-recursive types)
RECURSIVE NoRecursionMarker(_)
NoRecursionMarker(s) == s.k # "recursion" /\ \A i \in 1..Len(s.ts) : NoRecursionMarker(s.ts[i])

(* ------------------------------------------------------------------ *)
(* Diff : transcription of diff_schema (TRUE = a difference is         *)
(* reported).  a = in-memory schema, b = file schema.                  *)
(* ------------------------------------------------------------------ *)
RECURSIVE Diff(_, _)
\* diff_abi_def: every method of a that b also has (first of that name) must have the same number of arguments
\* and pairwise undifferent argument schemas (ts[1] of a method is its return value: not compared here)
DiffDef(a, b) ==
    \E i \in 1..Len(a.ts) :
        LET hits == {j \in 1..Len(b.ts) : b.ts[j].s = a.ts[i].s} IN
        hits # {} /\ LET bm == b.ts[CHOOSE j \in hits : \A h \in hits : j <= h]  am == a.ts[i] IN
                     \/ Len(am.ts) # Len(bm.ts)
                     \/ \E k \in 2..Len(am.ts) : Len(am.ts) = Len(bm.ts) /\ Diff(am.ts[k], bm.ts[k])
DiffFields(fa, fb) ==
    \/ Len(fa) # Len(fb)
    \/ \E i \in 1..Len(fa) : Len(fa) = Len(fb) /\ Diff(fa[i], fb[i])
Diff(a, b) ==
    IF a.k # b.k THEN TRUE
    ELSE CASE a.k = "struct" -> DiffFields(a.ts, b.ts)
           [] a.k = "enum" ->
                \/ Len(a.ts) # Len(b.ts)
                \/ a.n # b.n
                \/ \E i \in 1..Len(a.ts) :
                      /\ Len(a.ts) = Len(b.ts)
                      /\ \/ a.ts[i].s # b.ts[i].s
                         \/ a.ts[i].n # b.ts[i].n
                         \/ DiffFields(a.ts[i].ts, b.ts[i].ts)
           [] a.k = "prim" -> a.s # b.s
           [] a.k = "vector" -> Diff(a.ts[1], b.ts[1])
           [] a.k = "option" -> Diff(a.ts[1], b.ts[1])
           [] a.k = "array" -> a.n # b.n \/ Diff(a.ts[1], b.ts[1])
           [] a.k = "undefined" -> TRUE
           [] a.k = "custom" -> a.s # b.s
           [] a.k \in {"boxed", "ref", "slice"} -> Diff(a.ts[1], b.ts[1])
           [] a.k = "recursion" -> a.n # b.n
           [] a.k \in {"zero", "str", "utc", "ioerror", "uninit"} -> FALSE
           [] a.k \in {"trait", "fnclosure"} -> a.n # b.n \/ DiffDef(a.ts[1], b.ts[1])
           [] OTHER -> TRUE

(* ------------------------------------------------------------------ *)
(* Oracles for the schema gate (C05, C13)                              *)
(*  SameTree : identical wire-relevant structure (names of structs and *)
(*             fields erased, variant names kept)                      *)
(*  FlatKinds: the byte-level language: struct / tuple / array         *)
(*             grouping erased                                         *)
(* ------------------------------------------------------------------ *)
RECURSIVE Erase(_)
Erase(s) ==
    SN(s.k, IF s.k \in {"prim", "variant", "custom", "traitdef", "method"} THEN s.s ELSE "",
       IF s.k \in {"array", "enum", "variant", "recursion", "trait", "fnclosure", "future", "traitdef", "method"} THEN s.n ELSE 0,
       [i \in 1..Len(s.ts) |-> Erase(s.ts[i])])
SameTree(a, b) == Erase(a) = Erase(b)

RECURSIVE FlatKinds(_)
FlatKinds(s) ==
    CASE s.k = "struct" -> Flat([i \in 1..Len(s.ts) |-> FlatKinds(s.ts[i])])
      [] s.k = "array"  -> Flat([i \in 1..s.n |-> FlatKinds(s.ts[1])])
      [] s.k = "boxed"  -> FlatKinds(s.ts[1])
      [] s.k = "zero"   -> <<>>
      [] s.k = "ioerror"-> <<SN("prim", "u16", 0, <<>>), SN("prim", "string", 0, <<>>)>>
      [] s.k = "utc"    -> <<SN("prim", "i64", 0, <<>>)>>
      [] s.k = "vector" -> <<SN("vector", "", 0, FlatKinds(s.ts[1]))>>
      [] s.k = "option" -> <<SN("option", "", 0, FlatKinds(s.ts[1]))>>
      [] s.k = "enum"   -> <<SN("enum", "", s.n, [i \in 1..Len(s.ts) |->
                                   SN("variant", s.ts[i].s, s.ts[i].n, Flat([j \in 1..Len(s.ts[i].ts) |-> FlatKinds(s.ts[i].ts[j])]))])>>
      [] OTHER -> <<SN(s.k, s.s, s.n, <<>>)>>
SameFlat(a, b) == FlatKinds(a) = FlatKinds(b)

(* ------------------------------------------------------------------ *)
(* LayoutCompat : transcription of Schema::layout_compatible (C11)     *)
(* SameLayout   : the semantic criterion                               *)
(* ------------------------------------------------------------------ *)
RECURSIVE LayoutCompat(_, _)
\* (two different fields can occupy the same place: a removed field's slot reused by a later one -- the names must agree)
FieldCompat(a, b) == a.off >= 0 /\ b.off >= 0 /\ a.off = b.off /\ a.nm = b.nm /\ LayoutCompat(a, b)
LayoutCompat(a, b) ==
    IF a.k # b.k THEN FALSE
    ELSE CASE a.k = "struct" ->
                /\ Len(a.ts) = Len(b.ts)
                /\ a.al >= 0 /\ a.sz >= 0
                /\ a.al = b.al /\ a.sz = b.sz
                /\ \A i \in 1..Len(a.ts) : FieldCompat(a.ts[i], b.ts[i])
           [] a.k = "enum" ->
                /\ a.er /\ b.er
                /\ a.al >= 0 /\ a.sz >= 0
                /\ a.al = b.al /\ a.sz = b.sz
                /\ a.n = b.n
                /\ Len(a.ts) = Len(b.ts)
                /\ \A i \in 1..Len(a.ts) :
                      /\ a.ts[i].n = b.ts[i].n
                      /\ Len(a.ts[i].ts) = Len(b.ts[i].ts)
                      /\ \A j \in 1..Len(a.ts[i].ts) : FieldCompat(a.ts[i].ts[j], b.ts[i].ts[j])
           [] a.k = "prim" ->
                /\ (a.s = "string" => a.lay # "Unknown" /\ b.lay # "Unknown")
                /\ a.s = b.s /\ a.lay = b.lay
           [] a.k = "vector" -> a.lay # "Unknown" /\ b.lay # "Unknown" /\ a.lay = b.lay /\ LayoutCompat(a.ts[1], b.ts[1])
           [] a.k = "array" -> a.n = b.n /\ LayoutCompat(a.ts[1], b.ts[1])
           [] a.k = "zero" -> TRUE
           [] a.k \in {"boxed", "ref", "slice"} -> LayoutCompat(a.ts[1], b.ts[1])
           [] OTHER -> FALSE

RECURSIVE SameLayout(_, _)
\* both sides provably use the identical memory layout: same kind, every annotation present and equal,
\* recursively, nothing unknown; and what lies at each place is THE SAME FIELD on both sides
SameLayout(a, b) ==
    /\ a.k = b.k
    /\ CASE a.k = "struct" ->
                /\ a.sz >= 0 /\ a.al >= 0 /\ a.sz = b.sz /\ a.al = b.al
                /\ Len(a.ts) = Len(b.ts)
                /\ \A i \in 1..Len(a.ts) : /\ a.ts[i].off >= 0 /\ a.ts[i].off = b.ts[i].off /\ a.ts[i].nm = b.ts[i].nm
                                            /\ SameLayout(a.ts[i], b.ts[i])
         [] a.k = "enum" ->
                /\ a.er /\ b.er /\ a.sz >= 0 /\ a.al >= 0 /\ a.sz = b.sz /\ a.al = b.al /\ a.n = b.n
                /\ Len(a.ts) = Len(b.ts)
                /\ \A i \in 1..Len(a.ts) :
                      /\ a.ts[i].n = b.ts[i].n /\ Len(a.ts[i].ts) = Len(b.ts[i].ts)
                      /\ \A j \in 1..Len(a.ts[i].ts) :
                            /\ a.ts[i].ts[j].off >= 0 /\ a.ts[i].ts[j].off = b.ts[i].ts[j].off
                            /\ a.ts[i].ts[j].nm = b.ts[i].ts[j].nm
                            /\ SameLayout(a.ts[i].ts[j], b.ts[i].ts[j])
         [] a.k = "prim" -> a.s = b.s /\ (a.s = "string" => a.lay \notin {"", "Unknown"} /\ a.lay = b.lay)
         [] a.k = "vector" -> a.lay \notin {"", "Unknown"} /\ a.lay = b.lay /\ SameLayout(a.ts[1], b.ts[1])
         [] a.k = "array" -> a.n = b.n /\ SameLayout(a.ts[1], b.ts[1])
         [] a.k = "zero" -> TRUE                                  \* no bytes: nothing to lay out
         \* thin / fat pointers are passed as pointer (and length); what must agree is the pointee
         [] a.k \in {"boxed", "ref", "slice"} -> SameLayout(a.ts[1], b.ts[1])
         [] OTHER -> FALSE
=============================================================================

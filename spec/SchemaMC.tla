------------------------------ MODULE SchemaMC ------------------------------
(***************************************************************************)
(* C13: schema values persist exactly at library format versions 1 and 2,  *)
(* format-0 sections decode to the schema minus layout annotations, the    *)
(* comparison is reflexive and reports every single wire-altering change.  *)
(* C11 (schema part): LayoutCompat => SameLayout on pairs of annotated     *)
(* trees.                                                                  *)
(*                                                                         *)
(* SEnc / SDec transcribe the schema section format (tags, strings,        *)
(* options, the `file_version > 0` gates); the universe is every schema    *)
(* tree up to a size bound over a small alphabet of leaves / names /       *)
(* annotations.                                                            *)
(***************************************************************************)
EXTENDS Schema, Json, SequencesExt

CONSTANT Tier

(* ------------------------------------------------------------------ *)
(* byte-level helpers                                                  *)
(* ------------------------------------------------------------------ *)
NameBytes(nm) ==
    CASE nm = "" -> <<>> [] nm = "S" -> <<83>> [] nm = "T" -> <<84>> [] nm = "A" -> <<65>> [] nm = "B" -> <<66>>
      [] nm = "f" -> <<102>> [] nm = "g" -> <<103>> [] nm = "cu" -> <<99, 117>> [] nm = "cv" -> <<99, 118>>
BytesName(bs) ==
    CASE bs = <<>> -> "" [] bs = <<83>> -> "S" [] bs = <<84>> -> "T" [] bs = <<65>> -> "A" [] bs = <<66>> -> "B"
      [] bs = <<102>> -> "f" [] bs = <<103>> -> "g" [] bs = <<99, 117>> -> "cu" [] bs = <<99, 118>> -> "cv" [] OTHER -> "?"
EStr(nm) == LE(Len(NameBytes(nm)), 8) \o NameBytes(nm)
\* Option<usize>: tag byte 1 + u64, or tag byte 0   (-1 encodes None)
EOptUsize(x) == IF x < 0 THEN <<0>> ELSE <<1>> \o LE(x, 8)

PrimCode(nm) ==
    CASE nm = "i8" -> 1 [] nm = "u8" -> 2 [] nm = "i16" -> 3 [] nm = "u16" -> 4 [] nm = "i32" -> 5 [] nm = "u32" -> 6
      [] nm = "i64" -> 7 [] nm = "u64" -> 8 [] nm = "string" -> 9 [] nm = "f32" -> 10 [] nm = "f64" -> 11 [] nm = "bool" -> 12
      [] nm = "canary1" -> 13 [] nm = "i128" -> 14 [] nm = "u128" -> 15 [] nm = "char" -> 16
CodePrim(c) ==
    CASE c = 1 -> "i8" [] c = 2 -> "u8" [] c = 3 -> "i16" [] c = 4 -> "u16" [] c = 5 -> "i32" [] c = 6 -> "u32"
      [] c = 7 -> "i64" [] c = 8 -> "u64" [] c = 9 -> "string" [] c = 10 -> "f32" [] c = 11 -> "f64" [] c = 12 -> "bool"
      [] c = 13 -> "canary1" [] c = 14 -> "i128" [] c = 15 -> "u128" [] c = 16 -> "char" [] OTHER -> "?"
LayCode(l) ==
    CASE l = "DataCapacityLength" -> 1 [] l = "DataLengthCapacity" -> 2 [] l = "CapacityDataLength" -> 3
      [] l = "LengthDataCapacity" -> 4 [] l = "CapacityLengthData" -> 5 [] l = "LengthCapacityData" -> 6
      [] l = "LengthData" -> 7 [] l = "DataLength" -> 8 [] OTHER -> 0
CodeLay(c) ==
    CASE c = 1 -> "DataCapacityLength" [] c = 2 -> "DataLengthCapacity" [] c = 3 -> "CapacityDataLength"
      [] c = 4 -> "LengthDataCapacity" [] c = 5 -> "CapacityLengthData" [] c = 6 -> "LengthCapacityData"
      [] c = 7 -> "LengthData" [] c = 8 -> "DataLength" [] OTHER -> "Unknown"

(* ------------------------------------------------------------------ *)
(* SEnc(s, fv): schema section as written with format version fv        *)
(*   fv = 0 : the ORIGINAL format (no layout annotations)               *)
(* ------------------------------------------------------------------ *)
RECURSIVE SEnc(_, _)
EField(f, fv) == EStr(f.nm) \o SEnc(f, fv) \o (IF fv > 0 THEN EOptUsize(f.off) ELSE <<>>)
\* a trait definition: name (with "+Sync" / "+Send" appended), then the methods
PlusSync == <<43, 83, 121, 110, 99>>
PlusSend == <<43, 83, 101, 110, 100>>
ETraitName(d) == LET b == NameBytes(d.s) \o (IF d.n % 2 = 1 THEN PlusSync ELSE <<>>) \o (IF d.n >= 2 THEN PlusSend ELSE <<>>)
                 IN LE(Len(b), 8) \o b
EMethod(m, fv) == EStr(m.s) \o SEnc(m.ts[1], fv)
                  \o (IF fv >= 2 THEN <<100 + (m.n % 4), m.n \div 4>> ELSE <<>>)       \* receiver kind, async flag: format 2 only
                  \o LE(Len(m.ts) - 1, 8) \o Flat([k \in 1..(Len(m.ts) - 1) |-> SEnc(m.ts[k + 1], fv)])
EDef(d, fv) == ETraitName(d) \o LE(Len(d.ts), 8) \o Flat([i \in 1..Len(d.ts) |-> EMethod(d.ts[i], fv)])
SEnc(s, fv) ==
    CASE s.k = "struct" ->
            <<1>> \o EStr(s.s) \o LE(Len(s.ts), 8) \o (IF fv > 0 THEN EOptUsize(s.sz) \o EOptUsize(s.al) ELSE <<>>)
                  \o Flat([i \in 1..Len(s.ts) |-> EField(s.ts[i], fv)])
      [] s.k = "enum" ->
            <<2>> \o EStr(s.s) \o LE(Len(s.ts), 8)
                  \o Flat([i \in 1..Len(s.ts) |->
                             EStr(s.ts[i].s) \o <<s.ts[i].n>> \o LE(Len(s.ts[i].ts), 8)
                             \o Flat([j \in 1..Len(s.ts[i].ts) |-> EField(s.ts[i].ts[j], fv)])])
                  \o (IF fv > 0 THEN <<s.n>> \o <<IF s.er THEN 1 ELSE 0>> \o EOptUsize(s.sz) \o EOptUsize(s.al) ELSE <<>>)
      [] s.k = "prim" ->
            IF s.s = "string" THEN <<3, 9>> \o (IF fv > 0 THEN <<LayCode(s.lay)>> ELSE <<>>)
            ELSE <<3, PrimCode(s.s)>>
      [] s.k = "vector" -> <<4>> \o SEnc(s.ts[1], fv) \o (IF fv > 0 THEN <<LayCode(s.lay)>> ELSE <<>>)
      [] s.k = "undefined" -> <<5>>
      [] s.k = "zero" -> <<6>>
      [] s.k = "option" -> <<7>> \o SEnc(s.ts[1], fv)
      [] s.k = "array" -> <<8>> \o LE(s.n, 8) \o SEnc(s.ts[1], fv)
      [] s.k = "custom" -> <<9>> \o EStr(s.s)
      [] s.k = "boxed" -> <<10>> \o SEnc(s.ts[1], fv)
      [] s.k = "fnclosure" -> <<11, s.n>> \o EDef(s.ts[1], fv)
      [] s.k = "trait" -> <<15, s.n>> \o EDef(s.ts[1], fv)
      [] s.k = "future" -> <<18, s.n>> \o EDef(s.ts[1], fv)
      [] s.k = "uninit" -> <<19>>
      [] s.k = "slice" -> <<12>> \o SEnc(s.ts[1], fv)
      [] s.k = "str" -> <<13>>
      [] s.k = "ref" -> <<14>> \o SEnc(s.ts[1], fv)
      [] s.k = "recursion" -> <<16>> \o LE(s.n, 8)
      [] s.k = "ioerror" -> <<17>>
      [] s.k = "utc" -> <<20>>

(* ------------------------------------------------------------------ *)
(* SDec(bytes, pos, fv) -> [ok, s, pos]                                 *)
(* ------------------------------------------------------------------ *)
SD(ok, s, pos) == [ok |-> ok, s |-> s, pos |-> pos]
SBad(pos) == SD(FALSE, SZero, pos)
Have(b, pos, n) == pos + n <= Len(b)
U64At(b, pos) == FromLE(SubSeq(b, pos + 1, pos + 3))     \* small lengths only
U64Small(b, pos) == \A i \in 4..8 : b[pos + i] = 0

\* string: [ok, name, pos]
DStr(b, pos) ==
    IF ~Have(b, pos, 8) \/ ~U64Small(b, pos) \/ ~Have(b, pos + 8, U64At(b, pos)) THEN [ok |-> FALSE, nm |-> "", pos |-> pos]
    ELSE [ok |-> TRUE, nm |-> BytesName(SubSeq(b, pos + 9, pos + 8 + U64At(b, pos))), pos |-> pos + 8 + U64At(b, pos)]
\* Option<usize>: [ok, x, pos]
DOpt(b, pos, fv) ==
    IF fv = 0 THEN [ok |-> TRUE, x |-> -1, pos |-> pos]
    ELSE IF ~Have(b, pos, 1) THEN [ok |-> FALSE, x |-> -1, pos |-> pos]
    ELSE IF b[pos + 1] # 1 THEN [ok |-> TRUE, x |-> -1, pos |-> pos + 1]
    ELSE IF ~Have(b, pos + 1, 8) \/ ~U64Small(b, pos + 1) THEN [ok |-> FALSE, x |-> -1, pos |-> pos]
    ELSE [ok |-> TRUE, x |-> U64At(b, pos + 1), pos |-> pos + 9]

RECURSIVE SDec(_, _, _)
RECURSIVE DFields(_, _, _, _, _)
\* n fields (name, schema, offset); returns [ok, fs, pos]
DFields(b, pos, fv, n, acc) ==
    IF n = 0 THEN [ok |-> TRUE, fs |-> acc, pos |-> pos]
    ELSE LET nm == DStr(b, pos) IN
         IF ~nm.ok THEN [ok |-> FALSE, fs |-> acc, pos |-> pos]
         ELSE LET v == SDec(b, nm.pos, fv) IN
              IF ~v.ok THEN [ok |-> FALSE, fs |-> acc, pos |-> pos]
              ELSE LET o == DOpt(b, v.pos, fv) IN
                   IF ~o.ok THEN [ok |-> FALSE, fs |-> acc, pos |-> pos]
                   ELSE DFields(b, o.pos, fv, n - 1, Append(acc, [v.s EXCEPT !.off = o.x, !.nm = nm.nm]))
RECURSIVE DVariants(_, _, _, _, _)
DVariants(b, pos, fv, n, acc) ==
    IF n = 0 THEN [ok |-> TRUE, vs |-> acc, pos |-> pos]
    ELSE LET nm == DStr(b, pos) IN
         IF ~nm.ok \/ ~Have(b, nm.pos, 9) \/ ~U64Small(b, nm.pos + 1) THEN [ok |-> FALSE, vs |-> acc, pos |-> pos]
         ELSE LET d == b[nm.pos + 1]
                  fs == DFields(b, nm.pos + 9, fv, U64At(b, nm.pos + 1), <<>>) IN
              IF ~fs.ok THEN [ok |-> FALSE, vs |-> acc, pos |-> pos]
              ELSE DVariants(b, fs.pos, fv, n - 1, Append(acc, SVariant(nm.nm, d, fs.fs)))

\* ---- trait definitions -----------------------------------------------------------------------
SplitPlus(bs) ==
    LET RECURSIVE Go(_, _, _)
        Go(i, cur, acc) == IF i > Len(bs) THEN Append(acc, cur)
                           ELSE IF bs[i] = 43 THEN Go(i + 1, <<>>, Append(acc, cur))
                           ELSE Go(i + 1, Append(cur, bs[i]), acc)
    IN Go(1, <<>>, <<>>)
SyncB == Tail(PlusSync)
SendB == Tail(PlusSend)
RECURSIVE DSchemas(_, _, _, _, _)
DSchemas(b, pos, fv, n, acc) ==
    IF n = 0 THEN [ok |-> TRUE, ss |-> acc, pos |-> pos]
    ELSE LET r == SDec(b, pos, fv) IN
         IF ~r.ok THEN [ok |-> FALSE, ss |-> acc, pos |-> pos] ELSE DSchemas(b, r.pos, fv, n - 1, Append(acc, r.s))
RECURSIVE DMethods(_, _, _, _, _)
DMethods(b, pos, fv, n, acc) ==
    IF n = 0 THEN [ok |-> TRUE, ms |-> acc, pos |-> pos]
    ELSE LET nm == DStr(b, pos) IN
         IF ~nm.ok THEN [ok |-> FALSE, ms |-> acc, pos |-> pos]
         ELSE LET ret == SDec(b, nm.pos, fv) IN
              IF ~ret.ok THEN [ok |-> FALSE, ms |-> acc, pos |-> pos]
              ELSE LET p2 == IF fv >= 2 THEN ret.pos + 2 ELSE ret.pos
                       okrc == fv < 2 \/ (Have(b, ret.pos, 2) /\ b[ret.pos + 1] \in {100, 101, 102})
                       code == IF fv >= 2 /\ okrc THEN (b[ret.pos + 1] - 100) + 4 * (IF b[ret.pos + 2] = 1 THEN 1 ELSE 0) ELSE 0 IN
                   IF ~okrc \/ ~Have(b, p2, 8) \/ ~U64Small(b, p2) THEN [ok |-> FALSE, ms |-> acc, pos |-> pos]
                   ELSE LET as == DSchemas(b, p2 + 8, fv, U64At(b, p2), <<>>) IN
                        IF ~as.ok THEN [ok |-> FALSE, ms |-> acc, pos |-> pos]
                        ELSE DMethods(b, as.pos, fv, n - 1, Append(acc, SN("method", nm.nm, code, <<ret.s>> \o as.ss)))
\* [ok, s, pos]; a name segment after '+' other than Sync / Send is an error
DDef(b, pos, fv) ==
    IF ~Have(b, pos, 8) \/ ~U64Small(b, pos) \/ ~Have(b, pos + 8, U64At(b, pos)) THEN SBad(pos)
    ELSE LET bs == SubSeq(b, pos + 9, pos + 8 + U64At(b, pos))
             segs == SplitPlus(bs)
             p1 == pos + 8 + U64At(b, pos) IN
         IF \E k \in 2..Len(segs) : segs[k] \notin {SyncB, SendB} THEN SBad(pos)
         ELSE IF ~Have(b, p1, 8) \/ ~U64Small(b, p1) THEN SBad(pos)
         ELSE LET ms == DMethods(b, p1 + 8, fv, U64At(b, p1), <<>>)
                  flags == (IF \E k \in 2..Len(segs) : segs[k] = SyncB THEN 1 ELSE 0)
                           + (IF \E k \in 2..Len(segs) : segs[k] = SendB THEN 2 ELSE 0) IN
              IF ~ms.ok THEN SBad(pos)
              ELSE SD(TRUE, SN("traitdef", BytesName(segs[1]), flags, ms.ms), ms.pos)
WrapDef(kind, flag, b, pos, fv) ==
    LET r == DDef(b, pos, fv) IN IF ~r.ok THEN SBad(pos) ELSE SD(TRUE, SN(kind, "", flag, <<r.s>>), r.pos)

Wrap1(kind, b, pos, fv) ==
    LET r == SDec(b, pos, fv) IN IF ~r.ok THEN r ELSE SD(TRUE, SN(kind, "", 0, <<r.s>>), r.pos)

SDec(b, pos, fv) ==
    IF ~Have(b, pos, 1) THEN SBad(pos)
    ELSE LET tag == b[pos + 1]  p == pos + 1 IN
    CASE tag = 1 ->
            LET nm == DStr(b, p) IN
            IF ~nm.ok \/ ~Have(b, nm.pos, 8) \/ ~U64Small(b, nm.pos) THEN SBad(pos)
            ELSE LET n == U64At(b, nm.pos)
                     sz == DOpt(b, nm.pos + 8, fv) IN
                 IF ~sz.ok THEN SBad(pos)
                 ELSE LET al == DOpt(b, sz.pos, fv) IN
                      IF ~al.ok THEN SBad(pos)
                      ELSE LET fs == DFields(b, al.pos, fv, n, <<>>) IN
                           IF ~fs.ok THEN SBad(pos)
                           ELSE SD(TRUE, SNL("struct", nm.nm, 0, fs.fs, sz.x, al.x, -1, "", FALSE), fs.pos)
      [] tag = 2 ->
            LET nm == DStr(b, p) IN
            IF ~nm.ok \/ ~Have(b, nm.pos, 8) \/ ~U64Small(b, nm.pos) THEN SBad(pos)
            ELSE LET vs == DVariants(b, nm.pos + 8, fv, U64At(b, nm.pos), <<>>) IN
                 IF ~vs.ok THEN SBad(pos)
                 ELSE IF fv = 0 THEN SD(TRUE, SNL("enum", nm.nm, 1, vs.vs, -1, -1, -1, "", FALSE), vs.pos)
                 ELSE IF ~Have(b, vs.pos, 2) THEN SBad(pos)
                 ELSE LET sz == DOpt(b, vs.pos + 2, fv) IN
                      IF ~sz.ok THEN SBad(pos)
                      ELSE LET al == DOpt(b, sz.pos, fv) IN
                           IF ~al.ok THEN SBad(pos)
                           ELSE SD(TRUE, SNL("enum", nm.nm, b[vs.pos + 1], vs.vs, sz.x, al.x, -1, "", b[vs.pos + 2] = 1), al.pos)
      [] tag = 3 ->
            IF ~Have(b, p, 1) THEN SBad(pos)
            ELSE IF b[p + 1] = 9 THEN
                    IF fv = 0 THEN SD(TRUE, [SPrim("string") EXCEPT !.lay = "Unknown"], p + 1)
                    ELSE IF ~Have(b, p + 1, 1) THEN SBad(pos)
                    ELSE SD(TRUE, [SPrim("string") EXCEPT !.lay = CodeLay(b[p + 2])], p + 2)
            ELSE IF CodePrim(b[p + 1]) = "?" THEN SBad(pos)
            ELSE SD(TRUE, SPrim(CodePrim(b[p + 1])), p + 1)
      [] tag = 4 ->
            LET r == SDec(b, p, fv) IN
            IF ~r.ok THEN r
            ELSE IF fv = 0 THEN SD(TRUE, [SVector(r.s) EXCEPT !.lay = "Unknown"], r.pos)
            ELSE IF ~Have(b, r.pos, 1) THEN SBad(pos)
            ELSE SD(TRUE, [SVector(r.s) EXCEPT !.lay = CodeLay(b[r.pos + 1])], r.pos + 1)
      [] tag = 5 -> SD(TRUE, SN("undefined", "", 0, <<>>), p)
      [] tag = 6 -> SD(TRUE, SZero, p)
      [] tag = 7 -> Wrap1("option", b, p, fv)
      [] tag = 8 ->
            IF ~Have(b, p, 8) \/ ~U64Small(b, p) THEN SBad(pos)
            ELSE LET r == SDec(b, p + 8, fv) IN
                 IF ~r.ok THEN r ELSE SD(TRUE, SArray(r.s, U64At(b, p)), r.pos)
      [] tag = 9 -> LET nm == DStr(b, p) IN IF ~nm.ok THEN SBad(pos) ELSE SD(TRUE, SN("custom", nm.nm, 0, <<>>), nm.pos)
      [] tag = 10 -> Wrap1("boxed", b, p, fv)
      [] tag = 11 -> IF ~Have(b, p, 1) THEN SBad(pos) ELSE WrapDef("fnclosure", IF b[p + 1] = 1 THEN 1 ELSE 0, b, p + 1, fv)
      [] tag = 15 -> IF ~Have(b, p, 1) THEN SBad(pos) ELSE WrapDef("trait", IF b[p + 1] = 1 THEN 1 ELSE 0, b, p + 1, fv)
      [] tag = 18 -> IF ~Have(b, p, 1) THEN SBad(pos) ELSE WrapDef("future", b[p + 1] % 8, b, p + 1, fv)
      [] tag = 19 -> SD(TRUE, SN("uninit", "", 0, <<>>), p)
      [] tag = 12 -> Wrap1("slice", b, p, fv)
      [] tag = 13 -> SD(TRUE, SN("str", "", 0, <<>>), p)
      [] tag = 14 -> Wrap1("ref", b, p, fv)
      [] tag = 16 -> IF ~Have(b, p, 8) \/ ~U64Small(b, p) THEN SBad(pos) ELSE SD(TRUE, SN("recursion", "", U64At(b, p), <<>>), p + 8)
      [] tag = 17 -> SD(TRUE, SN("ioerror", "", 0, <<>>), p)
      [] tag = 20 -> SD(TRUE, SN("utc", "", 0, <<>>), p)
      [] OTHER -> SBad(pos)

\* the schema without memory-layout annotations (what a format-0 section can carry)
RECURSIVE StripLayout(_)
StripLayout(s) ==
    Named(SNL(s.k, s.s, IF s.k = "enum" THEN 1 ELSE IF s.k = "method" THEN 0 ELSE s.n,
              [i \in 1..Len(s.ts) |-> StripLayout(s.ts[i])], -1, -1, -1,
              IF (s.k = "prim" /\ s.s = "string") \/ s.k = "vector" THEN "Unknown" ELSE "", FALSE), s.nm)
\* what formats below 2 can express of a schema: a method's receiver kind and async flag have no encoding there
RECURSIVE Forget1(_)
Forget1(s) == [s EXCEPT !.n = IF s.k = "method" THEN 0 ELSE s.n, !.ts = [i \in 1..Len(s.ts) |-> Forget1(s.ts[i])]]

(* ------------------------------------------------------------------ *)
(* Universe of schema trees                                            *)
(* ------------------------------------------------------------------ *)
WithLay(s, l) == [s EXCEPT !.lay = l]
WithOff(s, o) == [s EXCEPT !.off = o]
Lays == {"Unknown", "LengthCapacityData"}
LeafQ == {SPrim("u8"), SPrim("i8"), SPrim("u32"), SPrim("bool"), SPrim("canary1"), SPrim("char"), SPrim("f32"), SZero, SN("str", "", 0, <<>>), SN("utc", "", 0, <<>>),
          SN("ioerror", "", 0, <<>>), SN("custom", "cu", 0, <<>>), SN("recursion", "", 1, <<>>), SN("undefined", "", 0, <<>>)}
         \cup {WithLay(SPrim("string"), l) : l \in Lays}
LeafS == {SPrim("u8"), SPrim("u32"), WithLay(SPrim("string"), "Unknown")}    \* small leaf set for nesting
Offs == {-1, 0, 4}
SzAl == {<<-1, -1>>, <<4, 4>>, <<8, 4>>}
FieldsOf(LL) == {<<>>} \cup {<<Named(WithOff(a, o), "f")>> : a \in LL, o \in Offs}
               \cup {<<Named(WithOff(a, o1), "f"), Named(WithOff(b, o2), "g")>> : a \in LL, b \in LL, o1 \in {-1, 0}, o2 \in {-1, 4}}
Structs(LL) == {SNL("struct", nm, 0, fs, sa[1], sa[2], -1, "", FALSE) : nm \in {"S", "T"}, fs \in FieldsOf(LL), sa \in SzAl}
VariantsOf(LL) == {SVariant(nm, d, fs) : nm \in {"A", "B"}, d \in {0, 1}, fs \in {<<>>} \cup {<<Named(WithOff(a, o), "f")>> : a \in LL, o \in {-1, 1}}}
Enums(LL) == {SNL("enum", "S", w, vs, sa[1], sa[2], -1, "", er) :
                w \in {1, 2}, er \in BOOLEAN, sa \in {<<-1, -1>>, <<4, 4>>},
                vs \in {<<a>> : a \in VariantsOf(LL)} \cup {<<a, b>> : a \in VariantsOf(LL), b \in VariantsOf(LL)}}
Wrappers(S) == {WithLay(SVector(e), l) : e \in S, l \in Lays} \cup {SOption(e) : e \in S} \cup {SArray(e, n) : e \in S, n \in {0, 2}}
               \cup {SN(k, "", 0, <<e>>) : k \in {"boxed", "slice", "ref"}, e \in S}
Depth1 == Wrappers(LeafQ) \cup Structs(LeafS) \cup Enums({SPrim("u8")})
SmallD1 == {WithLay(SVector(SPrim("u8")), "Unknown"), SOption(SPrim("u32")),
            SNL("struct", "S", 0, <<Named(WithOff(SPrim("u8"), 0), "f"), Named(WithOff(SPrim("u32"), 4), "g")>>, 8, 4, -1, "", FALSE),
            SNL("enum", "S", 1, <<SVariant("A", 0, <<>>), SVariant("B", 1, <<Named(WithOff(SPrim("u8"), 1), "f")>>)>>, 2, 1, -1, "", TRUE)}
Depth2 == Wrappers(SmallD1) \cup Structs(SmallD1 \cup {SPrim("u8")})
\* the nodes savefile-abi adds: trait objects, closures, futures
Methods == {SN("method", nm, rc + 4 * asy, <<ret>> \o as) :
              nm \in {"f", "g"}, rc \in {0, 1, 2}, asy \in {0, 1}, ret \in {SPrim("u8"), SZero},
              as \in {<<>>, <<SPrim("u32")>>, <<WithLay(SPrim("string"), "Unknown"), SPrim("u8")>>}}
MethodsS == {m \in Methods : m.n \in {0, 5} /\ m.ts[1] = SPrim("u8") /\ Len(m.ts) <= 2}
TraitDefs == {SN("traitdef", "T", fl, ms) : fl \in {0, 3}, ms \in {<<>>} \cup {<<m>> : m \in Methods}}
             \cup {SN("traitdef", "S", fl, <<p[1], p[2]>>) : fl \in {1, 2}, p \in {q \in MethodsS \X MethodsS : q[1].s # q[2].s}}   \* (method names are unique within a trait)
AbiNodes == {SN("trait", "", f, <<d>>) : f \in {0, 1}, d \in TraitDefs}
            \cup {SN("fnclosure", "", f, <<d>>) : f \in {0, 1}, d \in TraitDefs}
            \cup {SN("future", "", f, <<d>>) : f \in {0, 5, 7}, d \in TraitDefs}
            \cup {SN("uninit", "", 0, <<>>)}
AbiSmall == {SN("trait", "", 1, <<SN("traitdef", "T", 3, <<SN("method", "f", 5, <<SPrim("u8"), SPrim("u32")>>)>>)>>),
             SN("fnclosure", "", 0, <<SN("traitdef", "T", 0, <<SN("method", "g", 1, <<SZero>>)>>)>>)}
\* beyond the exhaustive size bound: a sample of deep trees (every wrapper kind nested five or six levels, in several orders)
WrapK(kd, e) ==
    CASE kd = "vec" -> WithLay(SVector(e), "LengthCapacityData")
      [] kd = "opt" -> SOption(e)
      [] kd = "arr" -> SArray(e, 2)
      [] kd = "box" -> SN("boxed", "", 0, <<e>>)
      [] kd = "ref" -> SN("ref", "", 0, <<e>>)
      [] kd = "str1" -> SNL("struct", "S", 0, <<Named(WithOff(e, 0), "f")>>, 8, 4, -1, "", FALSE)
      [] kd = "str2" -> SNL("struct", "T", 0, <<Named(WithOff(SPrim("u8"), 0), "f"), Named(WithOff(e, 4), "g")>>, 16, 4, -1, "", FALSE)
      [] kd = "enum" -> SNL("enum", "S", 1, <<SVariant("A", 0, <<>>), SVariant("B", 1, <<Named(WithOff(e, 1), "f")>>)>>, 8, 4, -1, "", TRUE)
RECURSIVE Chain(_, _)
Chain(ks, leaf) == IF ks = <<>> THEN leaf ELSE WrapK(Head(ks), Chain(Tail(ks), leaf))
Chains == { <<"vec", "opt", "arr", "box", "str1", "enum">>, <<"enum", "str2", "vec", "vec", "opt">>, <<"str2", "str1", "enum", "arr", "ref", "vec">>,
            <<"opt", "opt", "box", "enum", "str2">>, <<"arr", "arr", "vec", "str1", "str2", "enum">>, <<"box", "ref", "opt", "vec", "arr">> }
BigTrees == {Chain(c, l) : c \in Chains, l \in {SPrim("u8"), WithLay(SPrim("string"), "LengthCapacityData"), SN("custom", "cu", 0, <<>>)}}
Universe == LeafQ \cup Depth1 \cup AbiNodes \cup BigTrees \cup {SN("boxed", "", 0, <<e>>) : e \in AbiSmall}
            \cup (IF Tier = "thorough" THEN Depth2 \cup Enums(LeafS) ELSE Wrappers(SmallD1))

(* ------------------------------------------------------------------ *)
(* Single mutations that alter the wire layout                         *)
(* ------------------------------------------------------------------ *)
\* another primitive kind; for the 4-byte kinds one of the SAME width (u32 / canary1 / char / f32 differ in kind only)
OtherPrim(s) == CASE s.s = "u8" -> SPrim("i8") [] s.s = "string" -> SPrim("u8") [] s.s = "u32" -> SPrim("canary1")
                  [] s.s = "canary1" -> SPrim("u32") [] s.s = "char" -> SPrim("u32") [] s.s = "f32" -> SPrim("u32") [] OTHER -> SPrim("u8")
RECURSIVE WireMutants(_)
WireMutants(s) ==
    \* change at the root
    (CASE s.k = "prim" -> {OtherPrim(s)}
       [] s.k = "vector" -> {s.ts[1], SOption(s.ts[1])}
       [] s.k = "option" -> {s.ts[1]}
       [] s.k = "array" -> {[s EXCEPT !.n = s.n + 1]}
       [] s.k = "struct" -> {[s EXCEPT !.ts = Append(s.ts, SPrim("u8"))]}
                            \cup (IF Len(s.ts) >= 1 THEN {[s EXCEPT !.ts = Tail(s.ts)]} ELSE {})
                            \cup (IF Len(s.ts) = 2 /\ Erase(s.ts[1]) # Erase(s.ts[2]) THEN {[s EXCEPT !.ts = <<s.ts[2], s.ts[1]>>]} ELSE {})
       [] s.k = "enum" -> {[s EXCEPT !.n = 3 - s.n]}
                          \cup {[s EXCEPT !.ts = Append(s.ts, SVariant("A", 7, <<>>))]}
                          \cup (IF Len(s.ts) = 2 THEN {[s EXCEPT !.ts = <<s.ts[1]>>]} ELSE {})
                          \cup {[s EXCEPT !.ts[1].s = IF s.ts[1].s = "A" THEN "B" ELSE "A"]}
                          \cup {[s EXCEPT !.ts[1].n = 1 - s.ts[1].n]}
                          \cup {[s EXCEPT !.ts[1].ts = Append(s.ts[1].ts, SPrim("u32"))]}
       [] OTHER -> {})
    \* or inside the first child
    \cup (IF s.k \in {"vector", "option", "array", "boxed", "slice", "ref", "struct"} /\ Len(s.ts) >= 1
          THEN {[s EXCEPT !.ts[1] = m] : m \in WireMutants(s.ts[1])} ELSE {})

(* ------------------------------------------------------------------ *)
(* Single changes of a memory-layout annotation (wire layout unchanged) *)
(* ------------------------------------------------------------------ *)
RECURSIVE LayMutants(_)
LayMutants(x) ==
    (CASE x.k = "struct" -> {[x EXCEPT !.sz = IF x.sz < 0 THEN 4 ELSE -1], [x EXCEPT !.sz = x.sz + 4], [x EXCEPT !.al = IF x.al < 0 THEN 4 ELSE x.al * 2]}
                            \cup (IF Len(x.ts) >= 1 THEN {[x EXCEPT !.ts[1].off = IF x.ts[1].off < 0 THEN 0 ELSE x.ts[1].off + 4],
                                                          [x EXCEPT !.ts[1].off = -1],
                                                          [x EXCEPT !.ts[1].nm = IF x.ts[1].nm = "f" THEN "g" ELSE "f"]} ELSE {})
       [] x.k = "enum" -> {[x EXCEPT !.er = ~x.er], [x EXCEPT !.sz = IF x.sz < 0 THEN 4 ELSE x.sz + 4], [x EXCEPT !.al = IF x.al < 0 THEN 4 ELSE -1]}
                          \cup (IF Len(x.ts[1].ts) >= 1 THEN {[x EXCEPT !.ts[1].ts[1].off = IF x.ts[1].ts[1].off < 0 THEN 1 ELSE -1],
                                                                [x EXCEPT !.ts[1].ts[1].nm = "g"]} ELSE {})
       [] x.k = "vector" -> {[x EXCEPT !.lay = IF x.lay = "Unknown" THEN "LengthCapacityData" ELSE "Unknown"], [x EXCEPT !.lay = "DataLengthCapacity"]}
       [] x.k = "prim" /\ x.s = "string" -> {[x EXCEPT !.lay = IF x.lay = "Unknown" THEN "LengthCapacityData" ELSE "Unknown"], [x EXCEPT !.lay = "DataLengthCapacity"]}
       [] OTHER -> {})
    \cup (IF x.k \in {"vector", "option", "array", "boxed", "slice", "ref", "struct"} /\ Len(x.ts) >= 1
          THEN {[x EXCEPT !.ts[1] = m] : m \in LayMutants(x.ts[1])} ELSE {})

(* ------------------------------------------------------------------ *)
(* State machine: pick a schema, then one step per check               *)
(* ------------------------------------------------------------------ *)
VARIABLES s, phase
vars == <<s, phase>>
Init == s \in Universe /\ phase = "picked"
Checked == phase = "picked" /\ phase' = "checked" /\ s' = s
Spec == Init /\ [][Checked]_vars

RoundTrip(fv) == LET r == SDec(SEnc(s, fv), 0, fv) IN r.ok /\ r.pos = Len(SEnc(s, fv)) /\ r.s = s
\* C13.  Format 1 has no place for a method's receiver kind and async flag: what survives there is Forget1(s)
\* (equal to s for every schema without such methods); the replay compares the real result with s itself.
RoundTrip1  == LET r == SDec(SEnc(s, 1), 0, 1) IN r.ok /\ r.pos = Len(SEnc(s, 1)) /\ r.s = Forget1(s)
Persist12   == RoundTrip1 /\ RoundTrip(2)
Persist0    == LET b == SEnc(s, 0)  r == SDec(b, 0, 0) IN r.ok /\ r.pos = Len(b) /\ r.s = StripLayout(s)
\* "undefined" is the one schema that the comparison rejects even against itself (it stands for "no schema")
RECURSIVE HasUndefined(_)
HasUndefined(x) == x.k = "undefined" \/ \E i \in 1..Len(x.ts) : HasUndefined(x.ts[i])
RECURSIVE HasFuture(_)
HasFuture(x) == x.k = "future" \/ \E i \in 1..Len(x.ts) : HasFuture(x.ts[i])
Reflexive   == HasUndefined(s) \/ HasFuture(s) \/ ~Diff(s, s)
Complete    == \A m \in WireMutants(s) : Diff(s, m) /\ Diff(m, s)
\* layout annotations are not part of the wire layout: changing one is never reported
LayoutBlind == \A m \in LayMutants(s) : Diff(s, m) = Diff(s, s)
\* C11: the by-reference rule only accepts provably identical layouts
Partners    == {s} \cup WireMutants(s) \cup LayMutants(s)
LayoutSound == \A m \in Partners : (LayoutCompat(s, m) => SameLayout(s, m)) /\ (LayoutCompat(m, s) => SameLayout(m, s))
\* and it is not vacuous: a fully annotated tree is compatible with itself
RECURSIVE FullyAnnotated(_)
FullyAnnotated(x) ==
    CASE x.k = "struct" -> x.sz >= 0 /\ x.al >= 0 /\ \A i \in 1..Len(x.ts) : x.ts[i].off >= 0 /\ FullyAnnotated(x.ts[i])
      [] x.k = "enum" -> x.er /\ x.sz >= 0 /\ x.al >= 0 /\ \A i \in 1..Len(x.ts) : \A j \in 1..Len(x.ts[i].ts) :
                            x.ts[i].ts[j].off >= 0 /\ FullyAnnotated(x.ts[i].ts[j])
      [] x.k = "prim" -> x.s # "string" \/ x.lay # "Unknown"
      [] x.k = "vector" -> x.lay # "Unknown" /\ FullyAnnotated(x.ts[1])
      [] x.k = "array" -> FullyAnnotated(x.ts[1])
      [] x.k = "zero" -> TRUE
      [] x.k \in {"boxed", "ref", "slice"} -> FullyAnnotated(x.ts[1])
      [] OTHER -> FALSE
LayoutReflexive == FullyAnnotated(s) <=> LayoutCompat(s, s)

PairRec(m, kind) == [m |-> m, kind |-> kind, diff |-> Diff(s, m), rdiff |-> Diff(m, s),
                     lc |-> LayoutCompat(s, m), sl |-> SameLayout(s, m)]
Export == phase = "checked" =>
    PrintT(ToJson([s |-> s, e1 |-> SEnc(s, 1), e2 |-> SEnc(s, 2), e0 |-> SEnc(s, 0), strip |-> StripLayout(s),
                   f1 |-> Forget1(s),
                   pairs |-> IF HasFuture(s) THEN <<>> ELSE <<PairRec(s, "self")>>
                             \o [i \in 1..Cardinality(WireMutants(s)) |-> PairRec(SetToSeq(WireMutants(s))[i], "wire")]
                             \o [i \in 1..Cardinality(LayMutants(s)) |-> PairRec(SetToSeq(LayMutants(s))[i], "layout")]]))
=============================================================================

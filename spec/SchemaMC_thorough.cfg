CONSTANT Tier = "thorough"
SPECIFICATION Spec
INVARIANT Persist12 Persist0 Reflexive Complete LayoutBlind LayoutSound LayoutReflexive Export
CHECK_DEADLOCK FALSE

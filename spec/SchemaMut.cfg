CONSTANT Tier = "quick"
SPECIFICATION MSpec
INVARIANT MTotal MCutRejected MValidAccepted MBounded MExport
CHECK_DEADLOCK FALSE

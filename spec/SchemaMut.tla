------------------------------ MODULE SchemaMut ------------------------------
(***************************************************************************)
(* C06 "with a schema section": malformed schema sections.                 *)
(*                                                                         *)
(* A file saved with a schema carries SEnc(schema, 2) between header and   *)
(* payload, and the loader decodes it before anything else.  Subjects are  *)
(* schema trees of every node kind (incl. the trait / closure / future     *)
(* nodes of savefile-abi); each valid section is mutated (every cut, every *)
(* byte x replacement values, every 8-byte window x length patterns,       *)
(* appended bytes); the decoder SDec fixes the format's outcome.           *)
(***************************************************************************)
EXTENDS SchemaMC

U8s == SPrim("u8")
StrS == WithLay(SPrim("string"), "LengthCapacityData")
Subjects ==
    { SNL("struct", "S", 0, <<Named(WithOff(U8s, 0), "f"), Named(WithOff(StrS, 8), "g")>>, 32, 8, -1, "", FALSE),
      SNL("enum", "T", 1, <<SVariant("A", 0, <<>>), SVariant("B", 1, <<Named(WithOff(SPrim("u32"), 4), "f")>>)>>, 8, 4, -1, "", TRUE),
      WithLay(SVector(StrS), "LengthCapacityData"),
      SN("boxed", "", 0, <<SArray(SOption(SPrim("u32")), 2)>>),
      SN("custom", "cu", 0, <<>>), SN("recursion", "", 1, <<>>), SN("ref", "", 0, <<SN("slice", "", 0, <<U8s>>)>>),
      SN("trait", "", 1, <<SN("traitdef", "T", 3, <<SN("method", "f", 5, <<U8s, SPrim("u32")>>)>>)>>),
      SN("fnclosure", "", 0, <<SN("traitdef", "S", 0, <<SN("method", "g", 1, <<SZero>>)>>)>>),
      SN("future", "", 5, <<SN("traitdef", "T", 1, <<SN("method", "f", 2, <<U8s>>), SN("method", "g", 4, <<SZero, StrS, U8s>>)>>)>>) }

Repl == {0, 1, 2, 43, 100, 127, 128, 255}
Pat8 == { <<255,255,255,255,255,255,255,255>>, <<0,0,0,1,0,0,0,0>>, <<0,0,0,0,0,0,0,64>>, <<255,255,255,255,255,255,255,127>>,
          <<0,0,0,0,0,0,0,128>>, <<3,0,0,0,0,0,0,0>> }
Mu(k, p, b, bs) == [k |-> k, p |-> p, b |-> b, bs |-> bs]
Mutations(enc) ==
    {Mu("none", 0, 0, <<>>)}
    \cup {Mu("cut", p, 0, <<>>) : p \in 0..(Len(enc) - 1)}
    \cup {Mu("byte", p, b, <<>>) : p \in 1..Len(enc), b \in Repl}
    \cup {Mu("over8", p, 0, bs) : p \in 1..(Len(enc) - 7), bs \in Pat8}
    \cup {Mu("append", 0, b, <<>>) : b \in {0, 255}}
Apply(enc, m) ==
    CASE m.k = "none" -> enc
      [] m.k = "cut"  -> SubSeq(enc, 1, m.p)
      [] m.k = "byte" -> [i \in 1..Len(enc) |-> IF i = m.p THEN m.b ELSE enc[i]]
      [] m.k = "over8"-> [i \in 1..Len(enc) |-> IF i >= m.p /\ i < m.p + 8 THEN m.bs[i - m.p + 1] ELSE enc[i]]
      [] m.k = "append" -> Append(enc, m.b)

RECURSIVE NamesKnown(_)
NamesKnown(x) == x.s # "?" /\ x.nm # "?" /\ \A i \in 1..Len(x.ts) : NamesKnown(x.ts[i])

VARIABLES inp, mut, rd, stage      \* (the subject is SchemaMC's variable s)
mvars == <<s, phase, inp, mut, rd, stage>>
NoMut == Mu("pending", 0, 0, <<>>)
MInit == s \in Subjects /\ phase = "picked" /\ inp = SEnc(s, 2) /\ mut = NoMut /\ rd = SBad(0) /\ stage = "valid"
Mutate == /\ stage = "valid"
          /\ \E m \in Mutations(inp) : mut' = m /\ inp' = Apply(inp, m) /\ rd' = SDec(Apply(inp, m), 0, 2)
          /\ stage' = "done" /\ UNCHANGED <<s, phase>>
MSpec == MInit /\ [][Mutate]_mvars

MDone == stage = "done"
\* the decoder is total and never reads beyond the input
MTotal == MDone => rd.pos <= Len(inp)
\* the section format is prefix-free: no strict prefix of a valid section is a section
MCutRejected == MDone /\ mut.k = "cut" => ~rd.ok
MValidAccepted == MDone /\ mut.k = "none" => rd.ok /\ rd.pos = Len(inp) /\ rd.s = s
\* what is accepted re-encodes to no more bytes than were consumed
MBounded == MDone /\ rd.ok /\ NamesKnown(rd.s) => Len(SEnc(rd.s, 2)) <= rd.pos

MExport == MDone => PrintT(ToJson([inp |-> inp, mut |-> mut.k, ok |-> rd.ok, pos |-> rd.pos,
                                   known |-> rd.ok /\ NamesKnown(rd.s),
                                   enc |-> IF rd.ok /\ NamesKnown(rd.s) THEN SEnc(rd.s, 2) ELSE <<>>]))
=============================================================================

SPECIFICATION Spec
INVARIANT Report
CHECK_DEADLOCK FALSE

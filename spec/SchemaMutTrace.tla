--------------------------- MODULE SchemaMutTrace ---------------------------
(***************************************************************************)
(* impl -> spec validation for C06 on schema sections.                     *)
(* Observation: the input TLC generated (SchemaMut), the decoder's outcome *)
(* per the specification, and what the REAL Schema::deserialize did:       *)
(*   real  : "ok" | "err" | "panic" | "died"                               *)
(*   reser : the decoded schema serialized again by the real code          *)
(*   oom   : the panic / abort message is an allocation failure            *)
(***************************************************************************)
EXTENDS Naturals, Sequences, Json, IOUtils, TLC

Obs == ndJsonDeserialize(IOEnv.OBS)

Judge(o) ==
    IF o.real \in {"panic", "died"} THEN
         \* the only excused abnormal termination: genuine allocation failure on an absurd declared length
         IF ~o.ok /\ o.oom THEN "ok" ELSE "panic-or-abort"
    ELSE IF o.real = "err" THEN (IF o.mut = "none" THEN "valid-section-rejected" ELSE "ok")
    ELSE IF Len(o.reser) > Len(o.inp) THEN "decoded-schema-claims-more-than-the-input-encodes"
    ELSE IF o.mut = "cut" THEN "truncated-section-accepted"
    \* (C06 does not say WHICH of value / error a malformed section must give -- and the model's decoder rejects numbers
    \*  beyond TLC's integers that the format itself allows -- so "real accepts where the model rejects" is not judged)
    ELSE IF o.known /\ o.reser # o.enc THEN "section-decoded-to-a-different-schema"
    ELSE "ok"

VARIABLES idx, phase, verdict
vars == <<idx, phase, verdict>>
Init == idx \in 1..Len(Obs) /\ phase = "pending" /\ verdict = "pending"
Step == phase = "pending" /\ phase' = "judged" /\ idx' = idx /\ verdict' = Judge(Obs[idx])
Spec == Init /\ [][Step]_vars
Report == (phase = "judged" /\ verdict # "ok") => PrintT(ToJson([i |-> idx, verdict |-> verdict]))
=============================================================================

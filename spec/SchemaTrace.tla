---------------------------- MODULE SchemaTrace ----------------------------
(***************************************************************************)
(* impl -> spec validation for C12: every observation recorded from the    *)
(* real code                                                               *)
(*     [t, ver, schema (the REAL get_schema::<T>(ver), projected),         *)
(*      cases : <<[v, bytes (the REAL bare_serialize output)], ...>>]      *)
(* must be accepted: the schema-driven generic reader parses the real      *)
(* bytes completely and recovers the token stream the value has.           *)
(***************************************************************************)
EXTENDS Schema, Json, IOUtils

Obs == ndJsonDeserialize(IOEnv.OBS)

VARIABLES idx, phase, verdict
vars == <<idx, phase, verdict>>

JudgeCase(o, c) ==
    LET r == Parse(o.schema, c.bytes, 0) IN
    IF ~r.ok THEN "parse error: " \o r.err
    ELSE IF r.pos # Len(c.bytes) THEN "schema describes fewer bytes than were written"
    ELSE IF r.toks # TokensOf(o.t, c.v, o.ver) THEN "recovered structure differs from the value's"
    ELSE "ok"

Judge(o) ==
    IF ~NoRecursionMarker(o.schema) THEN <<[case |-> 0, why |-> "recursion marker in the schema of a non-recursive type"]>>
    ELSE SelectSeq([c \in 1..Len(o.cases) |-> [case |-> c, why |-> JudgeCase(o, o.cases[c])]], LAMBDA x : x.why # "ok")

Init == idx \in 1..Len(Obs) /\ phase = "pending" /\ verdict = <<>>
Step == /\ phase = "pending"
        /\ phase' = "judged"
        /\ verdict' = Judge(Obs[idx])
        /\ idx' = idx
Spec == Init /\ [][Step]_vars

Report == (phase = "judged" /\ verdict # <<>>) => PrintT(ToJson([i |-> idx, bad |-> verdict]))
=============================================================================

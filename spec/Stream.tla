------------------------------- MODULE Stream -------------------------------
(***************************************************************************)
(* C08: the Write / Read environments and the write_all / read_exact loops *)
(* savefile builds every primitive on.                                     *)
(*                                                                         *)
(* Writer program: a sequence of write_all(len) calls followed by flush.   *)
(* Environment, per `write` call:  All | One | Half (accept that many      *)
(* bytes), Intr (ErrorKind::Interrupted), Fail(kind), Zero (Ok(0)).        *)
(* These are exactly the actions of the harness's instrumented Write, so a *)
(* behaviour of this specification IS a fault plan that can be replayed.   *)
(*                                                                         *)
(* Reader program: a sequence of read_exact(len) calls; environment per    *)
(* `read` call: All | One | Half | Intr | Fail(kind) | Zero (premature     *)
(* end of data).                                                           *)
(***************************************************************************)
EXTENDS Naturals, Sequences, FiniteSets, TLC, Json

CONSTANTS Prog,       \* sequence of call lengths
          MaxPlan,    \* bound on the number of environment actions
          Kinds       \* set of hard error kinds (indices)

Acts == {"All", "One", "Half", "Intr", "Zero", "FailFlush"} \cup {"Fail"}
Total == LET RECURSIVE S(_) S(i) == IF i > Len(Prog) THEN 0 ELSE Prog[i] + S(i + 1) IN S(1)

VARIABLES dir,      \* "w" | "r"
          ci,       \* index of the current write_all / read_exact call (1-based), Len(Prog)+1 = flush / finished
          rem,      \* bytes still to transfer in the current call
          acc,      \* bytes accepted by the writer / delivered by the reader so far
          status,   \* "run" | "ok" | "err"
          why,      \* error kind of the result ("" if none)
          plan      \* history: the environment actions taken, as [a, k]
vars == <<dir, ci, rem, acc, status, why, plan>>

Init ==
    /\ dir \in {"w", "r"}
    /\ ci = 1 /\ rem = (IF Len(Prog) >= 1 THEN Prog[1] ELSE 0)
    /\ acc = 0 /\ status = "run" /\ why = "" /\ plan = <<>>

\* advance to the next call once the current one is complete
Advance(ci1, rem1) ==
    IF rem1 > 0 THEN <<ci1, rem1>>
    ELSE IF ci1 < Len(Prog) THEN <<ci1 + 1, Prog[ci1 + 1]>>
    ELSE <<Len(Prog) + 1, 0>>

Take(a) == CASE a = "All" -> rem [] a = "One" -> 1 [] a = "Half" -> IF rem \div 2 = 0 THEN 1 ELSE rem \div 2

InCall == status = "run" /\ ci <= Len(Prog) /\ rem > 0 /\ Len(plan) < MaxPlan

\* one `write` / `read` call that transfers bytes
Transfer(a) ==
    /\ InCall /\ a \in {"All", "One", "Half"}
    /\ LET k == Take(a)  nx == Advance(ci, rem - Take(a)) IN
       /\ acc' = acc + k
       /\ ci' = nx[1] /\ rem' = nx[2]
    /\ plan' = Append(plan, [a |-> a, k |-> 0])
    /\ UNCHANGED <<dir, status, why>>
\* ErrorKind::Interrupted: write_all / read_exact retry the same request
Interrupt ==
    /\ InCall
    /\ plan' = Append(plan, [a |-> "Intr", k |-> 0])
    /\ UNCHANGED <<dir, ci, rem, acc, status, why>>
\* a hard error surfaces at once, nothing more is attempted
HardFail(k) ==
    /\ InCall
    /\ status' = "err" /\ why' = "io"
    /\ plan' = Append(plan, [a |-> "Fail", k |-> k])
    /\ UNCHANGED <<dir, ci, rem, acc>>
\* Ok(0): write_all -> WriteZero, read_exact -> UnexpectedEof
ZeroLen ==
    /\ InCall
    /\ status' = "err" /\ why' = (IF dir = "w" THEN "writezero" ELSE "eof")
    /\ plan' = Append(plan, [a |-> "Zero", k |-> 0])
    /\ UNCHANGED <<dir, ci, rem, acc>>
\* all calls done: the writer flushes (the flush may fail), the reader is finished
Finish ==
    /\ status = "run" /\ ci = Len(Prog) + 1
    /\ status' = "ok" /\ UNCHANGED <<dir, ci, rem, acc, why, plan>>
FlushFails ==
    /\ status = "run" /\ ci = Len(Prog) + 1 /\ dir = "w"
    /\ status' = "err" /\ why' = "flush"
    /\ plan' = Append(plan, [a |-> "FailFlush", k |-> 0])
    /\ UNCHANGED <<dir, ci, rem, acc>>

Next == (\E a \in {"All", "One", "Half"} : Transfer(a)) \/ Interrupt \/ (\E k \in Kinds : HardFail(k)) \/ ZeroLen
        \/ Finish \/ FlushFails
Spec == Init /\ [][Next]_vars /\ WF_vars(\E a \in {"All", "One", "Half"} : Transfer(a)) /\ WF_vars(Finish)

(* ------------------------------------------------------------------ *)
(* Properties                                                          *)
(* ------------------------------------------------------------------ *)
\* what was accepted is always a prefix of the fault-free output, and only grows
AcceptedIsPrefix == acc <= Total /\ [][acc' >= acc]_vars
AccBound == acc <= Total
\* success only with everything transferred and no fault; every fault surfaces as an error
FaultSurfaces ==
    /\ status = "ok" => acc = Total /\ \A i \in 1..Len(plan) : plan[i].a \notin {"Fail", "Zero", "FailFlush"}
    /\ (\E i \in 1..Len(plan) : plan[i].a \in {"Fail", "Zero", "FailFlush"}) => status = "err"
\* the result does not depend on how the environment chunks the transfer
ChunkIndependent == status = "ok" => acc = Total
\* no livelock: if the environment eventually makes progress the operation ends (checked as liveness)
Terminates == <>(status # "run" \/ Len(plan) >= MaxPlan)

Terminal == status # "run" \/ Len(plan) >= MaxPlan
Export == (status # "run") =>
    PrintT(ToJson([dir |-> dir, plan |-> plan, status |-> status, why |-> why, acc |-> acc, total |-> Total]))
=============================================================================

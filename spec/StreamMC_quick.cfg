CONSTANTS
  Prog <- ProgQ
  MaxPlan = 5
  Kinds <- KindsQ
SPECIFICATION Spec
INVARIANT AccBound FaultSurfaces ChunkIndependent Export
PROPERTY AcceptedIsPrefix Terminates
CHECK_DEADLOCK FALSE

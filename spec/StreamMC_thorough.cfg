CONSTANTS
  Prog <- ProgQ
  MaxPlan = 7
  Kinds <- KindsT
SPECIFICATION Spec
INVARIANT AccBound FaultSurfaces ChunkIndependent Export
PROPERTY AcceptedIsPrefix Terminates
CHECK_DEADLOCK FALSE

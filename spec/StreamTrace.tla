----------------------------- MODULE StreamTrace -----------------------------
(***************************************************************************)
(* impl -> spec validation for C08.  An observation is the I/O event trace *)
(* recorded by the instrumented Write / Read while the REAL save / load    *)
(* ran under a fault plan:                                                 *)
(*   events.head : the first events [op, req, res]                         *)
(*       res >= 0 bytes transferred, -100 Interrupted, other < 0 hard error*)
(*   events.tail_* : summary of the remaining events                       *)
(*   result : "ok" | "err" | "panic" | "hang"                              *)
(*   total  : length of the fault-free output (-1: not comparable)         *)
(*   prefix_ok : the accepted bytes are a prefix of the fault-free output  *)
(*   veq    : a loaded value equals the fault-free value                   *)
(* Accepts is the trace-level statement of Stream.tla's properties.        *)
(***************************************************************************)
EXTENDS Naturals, Integers, Sequences, TLC, Json, IOUtils

Obs == ndJsonDeserialize(IOEnv.OBS)

\* walk state: [acc, failed, zero, pend, bad]
WS(acc, failed, zero, pend, bad) == [acc |-> acc, failed |-> failed, zero |-> zero, pend |-> pend, bad |-> bad]

RECURSIVE Walk(_, _, _)
Walk(evs, i, st) ==
    IF i > Len(evs) \/ st.bad # "" THEN st
    ELSE LET e == evs[i] IN
         \* (calls after a failure - a Drop that tries to finish the stream - are not forbidden by C08: what was
         \*  accepted BEFORE the failure must be a prefix, which the harness evaluates at the first failure)
         IF e.op = "f" THEN
              Walk(evs, i + 1, WS(st.acc, st.failed \/ e.res < 0, st.zero, -1, ""))
         ELSE IF st.pend # -1 /\ e.req # st.pend THEN WS(st.acc, st.failed, st.zero, st.pend, "interrupted call not retried with the same request")
         ELSE IF e.res = -100 THEN Walk(evs, i + 1, WS(st.acc, st.failed, st.zero, e.req, ""))
         ELSE IF e.res < 0 THEN Walk(evs, i + 1, WS(st.acc, TRUE, st.zero, -1, ""))
         ELSE IF e.res > e.req THEN WS(st.acc, st.failed, st.zero, st.pend, "more bytes transferred than requested")
         ELSE Walk(evs, i + 1, WS(st.acc + e.res, st.failed, st.zero \/ (e.res = 0 /\ e.req > 0), -1, ""))

Judge(o) ==
    LET st == Walk(o.events.head, 1, WS(0, FALSE, FALSE, -1, ""))
        faulty == st.failed \/ st.zero \/ ~o.events.tail_clean IN
    IF o.result = "panic" THEN "panic: " \o o.msg
    ELSE IF o.result = "hang" THEN "hang (step budget exceeded)"
    ELSE IF st.bad # "" THEN st.bad
    ELSE IF ~o.prefix_ok THEN "accepted bytes are not a prefix of the fault-free output"
    \* Ok(0) from a writer is a failure (WriteZero); Ok(0) from a reader is the end of the data, which is only a
    \* fault if it comes early - then the load cannot succeed with the right value, which veq covers
    ELSE IF o.result = "ok" /\ (st.failed \/ ~o.events.tail_clean \/ (o.dir = "w" /\ st.zero))
         THEN "fault swallowed: success although the environment reported a failure"
    ELSE IF o.result = "ok" /\ o.dir = "w" /\ o.total >= 0 /\ o.acc # o.total THEN "success but not everything was written"
    \* a writer that buffers reports its failure at flush time: success must end with a flush after the last write
    ELSE IF o.result = "ok" /\ o.dir = "w" /\ ~o.events.flushed THEN "success but the last bytes written were never flushed"
    ELSE IF o.result = "ok" /\ ~o.veq THEN "loaded value depends on the chunking"
    ELSE IF o.result = "err" /\ ~faulty THEN "error without any fault (result depends on the chunking)"
    ELSE "ok"

VARIABLES idx, phase, verdict
vars == <<idx, phase, verdict>>
Init == idx \in 1..Len(Obs) /\ phase = "pending" /\ verdict = "pending"
Step == phase = "pending" /\ phase' = "judged" /\ idx' = idx /\ verdict' = Judge(Obs[idx])
Spec == Init /\ [][Step]_vars
Report == (phase = "judged" /\ verdict # "ok") => PrintT(ToJson([i |-> idx, verdict |-> verdict]))
=============================================================================

------------------------------- MODULE Wire -------------------------------
(***************************************************************************)
(* The savefile wire format, the writer and the reader as state machines   *)
(* that perform ONE primitive I/O call per step, version gates on fields   *)
(* and variants, Removed / AbiRemoved, defaults and versions_as.           *)
(*                                                                         *)
(* Written from the documented format (README / crate docs / property      *)
(* statements), not from the Rust sources: it is the independent oracle    *)
(* the implementation is replayed against.                                 *)
(*                                                                         *)
(* All model data are UNIFORM records so that TLC can put them in sets:    *)
(*   type  node  [k, s, n, ts, fa]                                         *)
(*   value node  [k, n, bs, vs]                                            *)
(* Integers wider than a byte never exist as TLA+ integers: a primitive    *)
(* value IS its little-endian byte tuple (the harness converts it with     *)
(* from_le_bytes, which is independent of savefile).                       *)
(***************************************************************************)
EXTENDS Naturals, Integers, Sequences, FiniteSets, TLC

INF == 999           \* "no upper bound" of a version range (u32::MAX in the code)

(* ------------------------------------------------------------------ *)
(* Descriptors                                                        *)
(* ------------------------------------------------------------------ *)
T(k, s, n, ts, fa) == [k |-> k, s |-> s, n |-> n, ts |-> ts, fa |-> fa]

\* field attributes (one per struct field / variant field)
\*   from,to : savefile_versions range       rm : "no" | "removed" | "abi"
\*   df      : "default" | "val" | "fn"      ig : savefile_ignore
\*   af,at   : versions_as range (af > at means none), asty : the old type
P(name)          == T("p", name, 0, <<>>, <<>>)
FA(from, to, rm, df, ig, af, at, asty) ==
    [from |-> from, to |-> to, rm |-> rm, df |-> df, ig |-> ig, af |-> af, at |-> at, asty |-> asty, ii |-> FALSE, ik |-> FALSE]
\* ii : savefile_introspect_ignore, ik : savefile_introspect_key  (no effect on the wire format or the schema)
WithII(a) == [a EXCEPT !.ii = TRUE]
WithIK(a) == [a EXCEPT !.ik = TRUE]
Ign == [FA(0, INF, "no", "default", TRUE, 1, 0, P("unit")) EXCEPT !.ii = FALSE]     \* #[savefile_ignore]: in memory, never on the wire
Plain == FA(0, INF, "no", "default", FALSE, 1, 0, P("unit"))

Str              == T("str", "String", 0, <<>>, <<>>)
Vec(kind, t)     == T("vec", kind, 0, <<t>>, <<>>)
Arr(t, n)        == T("arr", "", n, <<t>>, <<>>)
Opt(t)           == T("opt", "", 0, <<t>>, <<>>)
Res(t, e)        == T("res", "", 0, <<t, e>>, <<>>)
Bx(kind, t)      == T("box", kind, 0, <<t>>, <<>>)
Tup(ts)          == T("tup", "", 0, ts, <<>>)
Rng(t)           == T("tup", "Range", 0, <<t, t>>, <<>>)          \* std::ops::Range<T>: start, end
Map(kind, k, v)  == T("map", kind, 0, <<k, v>>, <<>>)
Lib(name)        == T("lib", name, 0, <<>>, <<>>)
\* struct: s = repr ("Rust" | "C"), n = 0 named / 1 tuple-struct, ts = field types
Struct(repr, ts) == T("struct", repr, 0, ts, [i \in 1..Len(ts) |-> Plain])
StructA(repr, ts, fa) == T("struct", repr, 0, ts, fa)
\* enum: s = repr ("" | "u8" | "u16" | "u32" | "i8" ...), ts = variants
\* variant: k = "var", n = first version the variant exists in, ts = field types
\*          s = "" (implicit discriminant) or the explicit discriminant as decimal string
Var(from, ts)    == T("var", "", from, ts, [i \in 1..Len(ts) |-> Plain])
NVar(from, ts)   == T("var", "{}", from, ts, [i \in 1..Len(ts) |-> Plain])   \* variant with NAMED fields  V { f0: .., f1: .. }
VarD(d, ts)      == T("var", d, 0, ts, [i \in 1..Len(ts) |-> Plain])
VarA(ts, fa)     == T("var", "", 0, ts, fa)                                       \* variant with field attributes
Enum(repr, vars) == T("enum", repr, 0, vars, <<>>)
\* n > 0 on an enum node: the enum has n variants in total, all unit, of which
\* only the listed boundary variants are spelled out (for 257 / 65537-variant enums)
BigEnum(repr, nvars) == T("enum", repr, nvars, <<>>, <<>>)

(* ------------------------------------------------------------------ *)
(* Values                                                             *)
(* ------------------------------------------------------------------ *)
V(k, n, bs, vs) == [k |-> k, n |-> n, bs |-> bs, vs |-> vs]
B(bs)      == V("b", 0, bs, <<>>)      \* primitive / string payload: raw bytes
L(vs)      == V("l", 0, <<>>, vs)      \* sequence, tuple, struct fields, array
None       == V("o", 0, <<>>, <<>>)
Some(v)    == V("o", 1, <<>>, <<v>>)
OkV(v)     == V("r", 1, <<>>, <<v>>)
ErrV(v)    == V("r", 0, <<>>, <<v>>)
EV(idx, vs)== V("e", idx, <<>>, vs)    \* enum value: 0-based variant index
Unit       == L(<<>>)

(* ------------------------------------------------------------------ *)
(* Byte helpers                                                       *)
(* ------------------------------------------------------------------ *)
RECURSIVE LE(_, _)
LE(n, w) == IF w = 0 THEN <<>> ELSE <<n % 256>> \o LE(n \div 256, w - 1)

RECURSIVE Flat(_)
Flat(ss) == IF ss = <<>> THEN <<>> ELSE Head(ss) \o Flat(Tail(ss))

Rep(b, n) == [i \in 1..n |-> b]

RECURSIVE FromLE(_)
\* only called on byte strings whose value fits a TLC integer
FromLE(bs) == IF bs = <<>> THEN 0 ELSE Head(bs) + 256 * FromLE(Tail(bs))

PrimWidth(name) ==
    CASE name \in {"u8", "i8", "bool"}          -> 1
      [] name \in {"u16", "i16"}                -> 2
      [] name \in {"u32", "i32", "f32", "char"} -> 4
      [] name \in {"u64", "i64", "f64", "usize", "isize"} -> 8
      [] name \in {"u128", "i128"}              -> 16
      [] name = "unit"                          -> 0

(* ------------------------------------------------------------------ *)
(* Enum discriminant width:  explicit repr, else by variant count      *)
(* ------------------------------------------------------------------ *)
NVariants(t) == IF t.n > 0 THEN t.n ELSE Len(t.ts)
DiscrWidth(t) ==
    CASE t.s \in {"u8", "i8"}   -> 1
      [] t.s \in {"u16", "i16"} -> 2
      [] t.s \in {"u32", "i32"} -> 4
      [] OTHER -> IF NVariants(t) <= 256 THEN 1
                  ELSE IF NVariants(t) <= 65536 THEN 2 ELSE 4

(* ------------------------------------------------------------------ *)
(* Version gates                                                      *)
(* ------------------------------------------------------------------ *)
Present(a, ver) == ~a.ig /\ a.from <= ver /\ ver <= a.to
HasAs(a)        == a.af <= a.at
InAs(a, ver)    == HasAs(a) /\ a.af <= ver /\ ver <= a.at

BitKinds == {"BitVec", "BitSet", "BitVec08", "BitSet08"}

(* ------------------------------------------------------------------ *)
(* Library types: wire-equivalent descriptor                          *)
(* ------------------------------------------------------------------ *)
RECURSIVE RecTreeT(_), RecListT(_)
RecTreeT(d) == Struct("Rust", <<P("u8"), Vec("Vec", IF d = 0 THEN P("unit") ELSE RecTreeT(d - 1))>>)
RecListT(d) == Struct("Rust", <<P("u16"), Opt(IF d = 0 THEN P("unit") ELSE Bx("Box", RecListT(d - 1)))>>)
LibEquiv(name) ==
    CASE name \in {"ArcStr", "PathBuf", "ArrayString"} -> Str
      [] name = "IpAddr"     -> Enum("", <<Var(0, <<P("u32")>>), Var(0, <<P("u128")>>)>>)
      [] name = "SocketAddr" -> Enum("", <<Var(0, <<P("u16"), P("u32")>>),
                                           Var(0, <<P("u16"), P("u128"), P("u32"), P("u32")>>)>>)
      [] name \in {"Duration", "SystemTime"} -> P("u128")
      [] name = "IoError"    -> Tup(<<P("u16"), Str>>)
      [] name = "Canary1"    -> P("u32")
      [] name = "DateTimeUtc"-> P("i64")
      [] name \in BitKinds -> Tup(<<P("u64"), P("u64"), T("rawbytes", "", 0, <<>>, <<>>)>>)
      [] name \in {"AtomicBool"} -> P("bool")
      [] name = "AtomicU8"  -> P("u8")   [] name = "AtomicI8"  -> P("i8")
      [] name = "AtomicU16" -> P("u16")  [] name = "AtomicI16" -> P("i16")
      [] name = "AtomicU32" -> P("u32")  [] name = "AtomicI32" -> P("i32")
      [] name = "AtomicU64" -> P("u64")  [] name = "AtomicI64" -> P("i64")
      [] name = "AtomicUsize" -> P("usize") [] name = "AtomicIsize" -> P("isize")
      [] name = "PhantomData" -> P("unit")
      \* recursive definitions (harness: vcommon::RecTree { v: u8, kids: Vec<RecTree> }, RecList { v: u16, next: Option<Box<RecList>> }):
      \* the finite unfolding that holds every value of the table in WireVals (the innermost container is always empty)
      [] name = "RecTree" -> RecTreeT(2)
      [] name = "RecList" -> RecListT(3)

(* ------------------------------------------------------------------ *)
(* Default value of a type (Default::default()), used for added       *)
(* fields and for AbiRemoved fields that are written to an old version *)
(* ------------------------------------------------------------------ *)
RECURSIVE DefaultOf(_)
DefaultOf(t) ==
    CASE t.k = "p"    -> B(Rep(0, PrimWidth(t.s)))
      [] t.k = "str"  -> B(<<>>)
      [] t.k = "vec"  -> L(<<>>)
      [] t.k = "map"  -> L(<<>>)
      [] t.k = "arr"  -> L([i \in 1..t.n |-> DefaultOf(t.ts[1])])
      [] t.k = "opt"  -> None
      [] t.k = "box"  -> DefaultOf(t.ts[1])
      [] t.k = "tup"  -> L([i \in 1..Len(t.ts) |-> DefaultOf(t.ts[i])])
      [] t.k = "struct" -> L([i \in 1..Len(t.ts) |->
                              IF t.fa[i].rm # "no" \/ t.fa[i].ig THEN Unit ELSE DefaultOf(t.ts[i])])
      [] t.k = "enum" -> EV(0, [i \in 1..Len(t.ts[1].ts) |-> DefaultOf(t.ts[1].ts[i])])
      [] t.k = "lib"  -> DefaultOf(LibEquiv(t.s))

\* the value written by  savefile_default_val / savefile_default_fn in generated
\* code: a fixed non-default witness per type so that "Default used instead of
\* the declared default" is visible.
RECURSIVE WitnessOf(_)
WitnessOf(t) ==
    CASE t.k = "p"    -> IF t.s = "bool" THEN B(<<1>>)
                         ELSE IF t.s = "char" THEN B(<<90, 0, 0, 0>>)
                         ELSE IF t.s \in {"f32"} THEN B(<<0, 0, 128, 63>>)
                         ELSE IF t.s \in {"f64"} THEN B(<<0, 0, 0, 0, 0, 0, 240, 63>>)
                         ELSE B([i \in 1..PrimWidth(t.s) |-> IF i = 1 THEN 7 ELSE 0])
      [] t.k = "str"  -> B(<<100, 102>>)
      [] t.k = "vec"  -> L(<<WitnessOf(t.ts[1])>>)
      [] t.k = "opt"  -> Some(WitnessOf(t.ts[1]))
      [] t.k = "box"  -> WitnessOf(t.ts[1])
      [] t.k = "arr"  -> L([i \in 1..t.n |-> WitnessOf(t.ts[1])])
      [] t.k = "tup"  -> L([i \in 1..Len(t.ts) |-> WitnessOf(t.ts[i])])
      [] OTHER        -> DefaultOf(t)

\* the conversion function of generated `savefile_versions_as` fields (harness: vcommon::conv_mv)
RECURSIVE Conv(_, _)
Conv(old, newt) ==
    CASE newt.k = "p"   -> B([i \in 1..PrimWidth(newt.s) |-> IF i <= Len(old.bs) THEN old.bs[i] ELSE 0])
      [] newt.k = "opt" -> Some(Conv(old, newt.ts[1]))
      [] newt.k = "vec" -> L(<<Conv(old, newt.ts[1])>>)
      [] OTHER          -> old

FieldDefault(t, i) ==
    IF t.fa[i].rm # "no" THEN Unit
    ELSE IF t.fa[i].df = "default" THEN DefaultOf(t.ts[i]) ELSE WitnessOf(t.ts[i])

(* ------------------------------------------------------------------ *)
(* Enc : the documented encoding (field by field)                      *)
(*   "panic" marks the two documented writer panics                    *)
(* ------------------------------------------------------------------ *)
PANIC == <<-1>>
IsPanic(bs) == \E i \in 1..Len(bs) : bs[i] = -1

RECURSIVE Enc(_, _, _)
EncFields(ts, fa, vs, ver) ==
    Flat([i \in 1..Len(ts) |->
            IF ~Present(fa[i], ver) THEN <<>>
            ELSE IF fa[i].rm = "removed" THEN PANIC
            ELSE IF fa[i].rm = "abi" THEN Enc(ts[i], DefaultOf(ts[i]), ver)
            ELSE Enc(ts[i], vs[i], ver)])
Enc(t, v, ver) ==
    CASE t.k = "p"    -> v.bs
      [] t.k = "rawbytes" -> v.bs
      [] t.k = "str"  -> LE(Len(v.bs), 8) \o v.bs
      [] t.k = "vec"  -> LE(Len(v.vs), 8) \o Flat([i \in 1..Len(v.vs) |-> Enc(t.ts[1], v.vs[i], ver)])
      [] t.k = "arr"  -> Flat([i \in 1..Len(v.vs) |-> Enc(t.ts[1], v.vs[i], ver)])
      [] t.k = "opt"  -> IF v.n = 0 THEN <<0>> ELSE <<1>> \o Enc(t.ts[1], v.vs[1], ver)
      [] t.k = "res"  -> IF v.n = 1 THEN <<1>> \o Enc(t.ts[1], v.vs[1], ver)
                                    ELSE <<0>> \o Enc(t.ts[2], v.vs[1], ver)
      [] t.k = "box"  -> Enc(t.ts[1], v, ver)
      [] t.k = "tup"  -> Flat([i \in 1..Len(t.ts) |-> Enc(t.ts[i], v.vs[i], ver)])
      [] t.k = "map"  -> LE(Len(v.vs) \div 2, 8) \o
                         Flat([i \in 1..Len(v.vs) |-> Enc(t.ts[IF i % 2 = 1 THEN 1 ELSE 2], v.vs[i], ver)])
      [] t.k = "struct" -> EncFields(t.ts, t.fa, v.vs, ver)
      [] t.k = "enum" ->
            IF t.n > 0 THEN LE(v.n, DiscrWidth(t))
            ELSE LET var == t.ts[v.n + 1] IN
                 IF ver < var.n THEN PANIC
                 ELSE LE(v.n, DiscrWidth(t)) \o EncFields(var.ts, var.fa, v.vs, ver)
      [] t.k = "lib"  -> Enc(LibEquiv(t.s), v, ver)

(* ------------------------------------------------------------------ *)
(* Writer as a stack machine: one primitive write call per step        *)
(*   frame = [t, v] ; raw frames carry literal bytes                   *)
(* ------------------------------------------------------------------ *)
RawT == T("raw", "", 0, <<>>, <<>>)
Raw(bs) == [t |-> RawT, v |-> B(bs)]
PanicFrame == [t |-> T("panic", "", 0, <<>>, <<>>), v |-> Unit]
Fr(t, v) == [t |-> t, v |-> v]

FieldFrames(ts, fa, vs, ver) ==
    Flat([i \in 1..Len(ts) |->
            IF ~Present(fa[i], ver) THEN <<>>
            ELSE IF fa[i].rm = "removed" THEN <<PanicFrame>>
            ELSE IF fa[i].rm = "abi" THEN <<Fr(ts[i], DefaultOf(ts[i]))>>
            ELSE <<Fr(ts[i], vs[i])>>])

\* one-level expansion of a composite frame into the frames that replace it
Expand1(f, ver) ==
    LET t == f.t  v == f.v IN
    CASE t.k = "p"    -> <<Raw(v.bs)>>
      [] t.k = "rawbytes" -> <<Raw(v.bs)>>
      [] t.k = "str"  -> <<Raw(LE(Len(v.bs), 8)), Raw(v.bs)>>
      [] t.k = "vec"  -> <<Raw(LE(Len(v.vs), 8))>> \o [i \in 1..Len(v.vs) |-> Fr(t.ts[1], v.vs[i])]
      [] t.k = "arr"  -> [i \in 1..Len(v.vs) |-> Fr(t.ts[1], v.vs[i])]
      [] t.k = "opt"  -> IF v.n = 0 THEN <<Raw(<<0>>)>> ELSE <<Raw(<<1>>), Fr(t.ts[1], v.vs[1])>>
      [] t.k = "res"  -> IF v.n = 1 THEN <<Raw(<<1>>), Fr(t.ts[1], v.vs[1])>>
                                    ELSE <<Raw(<<0>>), Fr(t.ts[2], v.vs[1])>>
      [] t.k = "box"  -> <<Fr(t.ts[1], v)>>
      [] t.k = "tup"  -> [i \in 1..Len(t.ts) |-> Fr(t.ts[i], v.vs[i])]
      [] t.k = "map"  -> <<Raw(LE(Len(v.vs) \div 2, 8))>> \o
                         [i \in 1..Len(v.vs) |-> Fr(t.ts[IF i % 2 = 1 THEN 1 ELSE 2], v.vs[i])]
      [] t.k = "struct" -> FieldFrames(t.ts, t.fa, v.vs, ver)
      [] t.k = "enum" ->
            IF t.n > 0 THEN <<Raw(LE(v.n, DiscrWidth(t)))>>
            ELSE LET var == t.ts[v.n + 1] IN
                 IF ver < var.n THEN <<PanicFrame>>
                 ELSE <<Raw(LE(v.n, DiscrWidth(t)))>> \o FieldFrames(var.ts, var.fa, v.vs, ver)
      [] t.k = "lib"  -> <<Fr(LibEquiv(t.s), v)>>

\* expand the top of the stack until it is a non-empty raw frame, a panic frame,
\* or the stack is empty  (silent steps: they perform no I/O)
RECURSIVE Settle(_, _)
Settle(todo, ver) ==
    IF todo = <<>> THEN <<>>
    ELSE LET f == Head(todo) IN
         IF f.t.k = "panic" THEN todo
         ELSE IF f.t.k = "raw" THEN (IF f.v.bs = <<>> THEN Settle(Tail(todo), ver) ELSE todo)
         ELSE Settle(Expand1(f, ver) \o Tail(todo), ver)

(* ------------------------------------------------------------------ *)
(* Reader: Dec is the meaning oracle  (structural recursion),          *)
(* result = [ok, v, pos, err, reads]                                   *)
(*   reads = sequence of read-call lengths performed (incl. the        *)
(*           failing one)                                              *)
(* ------------------------------------------------------------------ *)
R(ok, v, pos, err, reads) == [ok |-> ok, v |-> v, pos |-> pos, err |-> err, reads |-> reads]
Fail(pos, err, reads) == R(FALSE, Unit, pos, err, reads)

Take(inp, pos, n) == SubSeq(inp, pos + 1, pos + n)

\* read exactly n bytes as one call (n = 0: no call at all)
ReadN(inp, pos, n) ==
    IF n = 0 THEN R(TRUE, B(<<>>), pos, "", <<>>)
    ELSE IF pos + n > Len(inp) THEN Fail(pos, "eof", <<n>>)
    ELSE R(TRUE, B(Take(inp, pos, n)), pos + n, "", <<n>>)

\* a 64-bit length: usable as a TLC integer only if its upper 5 bytes are zero
LenSmall(bs) == \A i \in 4..8 : bs[i] = 0
BIGLEN == 16777216

ValidChar(bs) ==  \* u32 LE is a unicode scalar value
    /\ bs[4] = 0 /\ bs[3] <= 16
    /\ ~(bs[3] = 0 /\ bs[2] >= 216 /\ bs[2] <= 223)

\* minimal UTF-8 validity (enough for the value tables and their mutations)
RECURSIVE ValidUtf8(_)
ValidUtf8(bs) ==
    IF bs = <<>> THEN TRUE
    ELSE LET b == Head(bs) IN
         IF b < 128 THEN ValidUtf8(Tail(bs))
         ELSE IF b >= 194 /\ b <= 223 THEN
              Len(bs) >= 2 /\ bs[2] >= 128 /\ bs[2] <= 191 /\ ValidUtf8(SubSeq(bs, 3, Len(bs)))
         ELSE IF b >= 224 /\ b <= 239 THEN
              /\ Len(bs) >= 3 /\ bs[2] >= 128 /\ bs[2] <= 191 /\ bs[3] >= 128 /\ bs[3] <= 191
              /\ ~(b = 224 /\ bs[2] < 160) /\ ~(b = 237 /\ bs[2] > 159)
              /\ ValidUtf8(SubSeq(bs, 4, Len(bs)))
         ELSE IF b >= 240 /\ b <= 244 THEN
              /\ Len(bs) >= 4 /\ bs[2] >= 128 /\ bs[2] <= 191 /\ bs[3] >= 128 /\ bs[3] <= 191
              /\ bs[4] >= 128 /\ bs[4] <= 191
              /\ ~(b = 240 /\ bs[2] < 144) /\ ~(b = 244 /\ bs[2] > 143)
              /\ ValidUtf8(SubSeq(bs, 5, Len(bs)))
         ELSE FALSE

\* every value of the type takes at least one byte on the wire
RECURSIVE NeedsBytes(_)
NeedsBytes(t) ==
    CASE t.k = "p" -> PrimWidth(t.s) > 0
      [] t.k \in {"str", "vec", "map", "opt", "res", "enum", "rawbytes"} -> TRUE
      [] t.k = "arr" -> t.n > 0 /\ NeedsBytes(t.ts[1])
      [] t.k = "box" -> NeedsBytes(t.ts[1])
      [] t.k = "tup" -> \E i \in 1..Len(t.ts) : NeedsBytes(t.ts[i])
      [] t.k = "struct" -> \E i \in 1..Len(t.ts) : t.fa[i].from = 0 /\ t.fa[i].to >= INF /\ ~t.fa[i].ig /\ t.fa[i].rm = "no" /\ NeedsBytes(t.ts[i])
      [] t.k = "lib" -> NeedsBytes(LibEquiv(t.s))
      [] OTHER -> FALSE
RECURSIVE Dec(_, _, _, _)
RECURSIVE DecSeq(_, _, _, _, _, _, _)
\* decode cnt items whose types are given by tyOf(i); accumulates values / reads
DecSeq(tys, i, inp, pos, ver, acc, reads) ==
    IF i > Len(tys) THEN R(TRUE, L(acc), pos, "", reads)
    ELSE LET r == Dec(tys[i], inp, pos, ver) IN
         IF ~r.ok THEN Fail(r.pos, r.err, reads \o r.reads)
         ELSE DecSeq(tys, i + 1, inp, r.pos, ver, Append(acc, r.v), reads \o r.reads)

RECURSIVE DecRep(_, _, _, _, _, _, _)
DecRep(t, cnt, inp, pos, ver, acc, reads) ==
    IF cnt = 0 THEN R(TRUE, L(acc), pos, "", reads)
    ELSE LET r == Dec(t, inp, pos, ver) IN
         IF ~r.ok THEN Fail(r.pos, r.err, reads \o r.reads)
         ELSE DecRep(t, cnt - 1, inp, r.pos, ver, Append(acc, r.v), reads \o r.reads)

RECURSIVE DecFields(_, _, _, _, _, _, _, _)
\* fields of a struct / variant as the program whose definition is (ts, fa) reads them
\* from a file of version ver
DecFields(t, i, inp, pos, ver, acc, reads, dummy) ==
    IF i > Len(t.ts) THEN R(TRUE, L(acc), pos, "", reads)
    ELSE LET a == t.fa[i] IN
         IF a.ig THEN DecFields(t, i + 1, inp, pos, ver, Append(acc, FieldDefault(t, i)), reads, dummy)
         ELSE IF InAs(a, ver) THEN
              \* versions_as: read the OLD type, convert
              LET r == Dec(a.asty, inp, pos, ver) IN
              IF ~r.ok THEN Fail(r.pos, r.err, reads \o r.reads)
              ELSE DecFields(t, i + 1, inp, r.pos, ver, Append(acc, Conv(r.v, t.ts[i])), reads \o r.reads, dummy)
         ELSE IF a.from <= ver /\ ver <= a.to THEN
              LET r == Dec(t.ts[i], inp, pos, ver) IN
              IF ~r.ok THEN Fail(r.pos, r.err, reads \o r.reads)
              ELSE DecFields(t, i + 1, inp, r.pos, ver,
                             Append(acc, IF a.rm # "no" THEN Unit ELSE r.v), reads \o r.reads, dummy)
         ELSE DecFields(t, i + 1, inp, pos, ver, Append(acc, FieldDefault(t, i)), reads, dummy)

Dec(t, inp, pos, ver) ==
    CASE t.k = "p" ->
            LET r == ReadN(inp, pos, PrimWidth(t.s)) IN
            IF ~r.ok THEN r
            ELSE IF t.s = "bool" THEN R(TRUE, B(<<IF r.v.bs[1] = 1 THEN 1 ELSE 0>>), r.pos, "", r.reads)
            ELSE IF t.s = "char" /\ ~ValidChar(r.v.bs) THEN Fail(r.pos, "invalidchar", r.reads)
            ELSE r
      [] t.k = "str" ->
            LET l == ReadN(inp, pos, 8) IN
            IF ~l.ok THEN l
            ELSE IF ~LenSmall(l.v.bs) \/ FromLE(SubSeq(l.v.bs, 1, 3)) > Len(inp) - l.pos
                 THEN Fail(l.pos, "eof-or-alloc", l.reads)
            ELSE LET n == FromLE(SubSeq(l.v.bs, 1, 3))
                     r == ReadN(inp, l.pos, n) IN
                 IF ~ValidUtf8(r.v.bs) THEN Fail(r.pos, "utf8", l.reads \o r.reads)
                 ELSE R(TRUE, r.v, r.pos, "", l.reads \o r.reads)
      [] t.k \in {"vec", "map"} ->
            LET l == ReadN(inp, pos, 8) IN
            IF ~l.ok THEN l
            ELSE IF ~LenSmall(l.v.bs) THEN Fail(l.pos, "eof-or-alloc", l.reads)
            \* a declared length that the rest of the input cannot possibly encode (every element takes at least one byte)
            \* is the "absurd declared length" of C06: the reader may fail to allocate for it or run into the end of input
            ELSE IF NeedsBytes(t.ts[1]) /\ FromLE(SubSeq(l.v.bs, 1, 3)) > Len(inp) - l.pos THEN Fail(l.pos, "eof-or-alloc", l.reads)
            ELSE LET n == FromLE(SubSeq(l.v.bs, 1, 3)) IN
                 IF t.k = "vec" THEN DecRep(t.ts[1], n, inp, l.pos, ver, <<>>, l.reads)
                 ELSE DecSeq([i \in 1..(2 * n) |-> t.ts[IF i % 2 = 1 THEN 1 ELSE 2]], 1, inp, l.pos, ver, <<>>, l.reads)
      [] t.k = "arr" -> DecRep(t.ts[1], t.n, inp, pos, ver, <<>>, <<>>)
      [] t.k = "opt" ->
            LET g == ReadN(inp, pos, 1) IN
            IF ~g.ok THEN g
            ELSE IF g.v.bs[1] # 1 THEN R(TRUE, None, g.pos, "", g.reads)
            ELSE LET r == Dec(t.ts[1], inp, g.pos, ver) IN
                 IF ~r.ok THEN Fail(r.pos, r.err, g.reads \o r.reads)
                 ELSE R(TRUE, Some(r.v), r.pos, "", g.reads \o r.reads)
      [] t.k = "res" ->
            LET g == ReadN(inp, pos, 1) IN
            IF ~g.ok THEN g
            ELSE LET isok == g.v.bs[1] = 1
                     r == Dec(t.ts[IF isok THEN 1 ELSE 2], inp, g.pos, ver) IN
                 IF ~r.ok THEN Fail(r.pos, r.err, g.reads \o r.reads)
                 ELSE R(TRUE, IF isok THEN OkV(r.v) ELSE ErrV(r.v), r.pos, "", g.reads \o r.reads)
      [] t.k = "box" -> Dec(t.ts[1], inp, pos, ver)
      [] t.k = "tup" -> DecSeq(t.ts, 1, inp, pos, ver, <<>>, <<>>)
      [] t.k = "struct" -> DecFields(t, 1, inp, pos, ver, <<>>, <<>>, 0)
      [] t.k = "enum" ->
            LET w == DiscrWidth(t)
                g == ReadN(inp, pos, w) IN
            IF ~g.ok THEN g
            ELSE LET big == w = 4 /\ g.v.bs[4] >= 128
                     d   == IF big THEN 0 ELSE FromLE(g.v.bs) IN
                 IF big \/ d >= NVariants(t) THEN Fail(g.pos, "variant", g.reads)
                 ELSE IF t.n > 0 THEN R(TRUE, EV(d, <<>>), g.pos, "", g.reads)
                 ELSE LET r == DecFields(t.ts[d + 1], 1, inp, g.pos, ver, <<>>, g.reads, 0) IN
                      IF ~r.ok THEN r ELSE R(TRUE, EV(d, r.v.vs), r.pos, "", r.reads)
      [] t.k = "lib" /\ t.s \in BitKinds ->
            \* u64 number of bits, u64 (byte count | 2^63), raw storage (whole 32-bit words).
            \* Without bit 63: the old format, u64 byte count and that many bytes (MSB-first bits).
            LET a == ReadN(inp, pos, 8) IN
            IF ~a.ok THEN a ELSE
            LET b == ReadN(inp, a.pos, 8) IN
            IF ~b.ok THEN Fail(b.pos, b.err, a.reads \o b.reads)
            ELSE LET newfmt == b.v.bs[8] >= 128
                     nb == [i \in 1..8 |-> IF i = 8 THEN b.v.bs[8] % 128 ELSE b.v.bs[i]] IN
                 IF ~LenSmall(nb) THEN Fail(b.pos, "eof-or-alloc", a.reads \o b.reads)
                 ELSE LET n == FromLE(SubSeq(nb, 1, 3))
                          take == IF newfmt THEN 4 * (n \div 4) ELSE n
                          c == ReadN(inp, b.pos, take) IN
                      IF ~c.ok THEN Fail(c.pos, c.err, a.reads \o b.reads \o c.reads)
                      \* more bits than the storage holds is not a value of the type
                      ELSE IF newfmt /\ (~LenSmall(a.v.bs) \/ FromLE(SubSeq(a.v.bs, 1, 3)) > 8 * take)
                           THEN Fail(c.pos, "bitvec-bits", a.reads \o b.reads \o c.reads)
                      ELSE R(TRUE, L(<<a.v, b.v, c.v>>), c.pos, "", a.reads \o b.reads \o c.reads)
      [] t.k = "lib" /\ t.s \notin BitKinds ->
            LET r == Dec(LibEquiv(t.s), inp, pos, ver) IN
            IF ~r.ok THEN r
            ELSE IF t.s = "Canary1" /\ r.v.bs # <<67, 104, 86, 71>> THEN Fail(r.pos, "canary", r.reads)
            ELSE r

=============================================================================

------------------------------ MODULE WireMC ------------------------------
(***************************************************************************)
(* Model-checking instance of Wire: the type catalogue ("programs"         *)
(* quantifier), the write/read state machine, the invariants of C01 C02    *)
(* C07 (payload level), and the export of one REPLAY record per behaviour. *)
(***************************************************************************)
EXTENDS WireVals, Json

CONSTANT Tier        \* "quick" | "thorough"

AllPrims == {"u8", "i8", "u16", "i16", "u32", "i32", "u64", "i64", "u128", "i128",
             "usize", "isize", "f32", "f64", "bool", "char", "unit"}
LibNames == {"ArcStr", "PathBuf", "ArrayString", "IpAddr", "SocketAddr", "Duration", "SystemTime", "IoError",
             "Canary1", "DateTimeUtc", "BitVec", "BitSet", "BitVec08", "BitSet08",
             "AtomicBool", "AtomicU8", "AtomicI8", "AtomicU16", "AtomicI16", "AtomicU32", "AtomicI32",
             "AtomicU64", "AtomicI64", "AtomicUsize", "AtomicIsize", "PhantomData", "RecTree", "RecList"}
Leaves == {P(n) : n \in AllPrims} \cup {Str} \cup {Lib(n) : n \in LibNames}

Key6  == {P("u8"), P("u16"), P("u32"), P("u64"), P("bool"), Str}
P4    == {P("u8"), P("u16"), P("u32"), P("u64")}
P3    == {P("u8"), P("u16"), P("u32")}
Mix   == Key6 \cup {P("i8"), P("f32"), P("char"), P("u128"), P("usize"), P("unit")}

SeqKinds == {"Vec", "VecDeque", "BoxSlice", "ArcSlice", "SmallVec", "ArrayVec"}
KeyedKinds == {"BTreeSet", "HashSet", "IndexSet", "FxHashSet", "BinaryHeap"}
BoxKinds == {"Box", "Rc", "Arc", "Cell", "RefCell", "Mutex", "StdMutex", "RwLock", "Cow"}
MapKinds == {"BTreeMap", "HashMap", "IndexMap", "FxHashMap"}

Wrap1 ==
    {Vec(k, t) : k \in SeqKinds, t \in Mix}
    \cup {Vec(k, t) : k \in KeyedKinds, t \in Key6}
    \cup {Arr(t, n) : t \in Mix, n \in {0, 1, 3}}
    \cup {Opt(t) : t \in Mix}
    \cup {Res(t, e) : t \in {P("u8"), P("u32"), Str, P("unit")}, e \in {P("u8"), Str, Lib("IoError")}}
    \cup ({Bx(k, t) : k \in BoxKinds, t \in {P("u8"), P("u32"), Str, P("bool")}} \ {Bx("Cell", Str)})
    \cup {Tup(<<a>>) : a \in Mix}
    \cup {Tup(<<a, b>>) : a \in P4 \cup {Str}, b \in P4 \cup {Str}}
    \cup {Tup(<<a, b, c>>) : a \in P3, b \in P3, c \in P3}
    \cup {Map(k, a, b) : k \in MapKinds, a \in {P("u8"), P("u32"), Str}, b \in {P("u8"), P("u32"), Str}}
    \cup {Rng(t) : t \in {P("u8"), P("u32"), P("i64"), Str}}
    \cup {T("range", "", 0, <<t>>, <<>>) : t \in {}}

Reprs == {"Rust", "C"}
StructsQ ==
    {Struct(r, <<>>) : r \in Reprs}
    \cup {Struct(r, <<a>>) : r \in Reprs, a \in Mix}
    \cup {Struct(r, <<a, b>>) : r \in Reprs, a \in Key6, b \in Key6}
    \cup {Struct(r, <<a, b, c>>) : r \in Reprs, a \in P3, b \in P3, c \in P3}
    \cup {T("struct", r, 1, <<a, b>>, <<Plain, Plain>>) : r \in Reprs, a \in P3, b \in P3}
    \* generic structs  S<T> { f0: T, f1: .. }  instantiated at T = type of the first field
    \cup {T("struct", r, 2, <<a, b>>, <<Plain, Plain>>) : r \in Reprs, a \in {P("u8"), P("u32"), Str}, b \in {P("u8"), P("u32")}}
    \cup {T("struct", "Rust", 2, <<a>>, <<Plain>>) : a \in {Vec("Vec", P("u16")), Opt(Str)}}
    \cup {Struct("Rust", <<a, b, c, d>>) : a \in {P("u32"), P("u64")}, b \in P3, c \in P3, d \in {P("u8"), P("u16")}}
    \cup {Struct(r, <<a, w>>) : r \in Reprs, a \in {P("u8"), P("u32")},
             w \in {Vec("ArrayVec", P("u8")), Vec("ArrayVec", P("u32")), Vec("SmallVec", P("u8")), Arr(P("u8"), 3),
                    Arr(P("u16"), 2), Tup(<<P("u8"), P("u8")>>), Tup(<<P("u16"), P("u8")>>), Opt(P("u8")), Bx("Box", P("u32")),
                    Lib("AtomicU8"), Lib("PhantomData"), Lib("ArcStr")}}
\* attributes that must not influence bytes or schema
    \cup {StructA(r, <<a, b>>, <<Plain, WithII(Plain)>>) : r \in Reprs, a \in {P("u8"), Str}, b \in {P("u32"), Str}}
    \cup {StructA(r, <<a, b, c>>, <<WithII(Plain), WithIK(Plain), Plain>>) : r \in Reprs, a \in {P("u16")}, b \in {Str, P("u8")}, c \in {P("u8")}}
    \cup {StructA("C", <<P("u8"), P("u8")>>, <<WithIK(Plain), WithII(Plain)>>)}
\* #[savefile_ignore] at every position (the field exists in memory only and comes back as its Default)
    \cup {StructA(r, <<a, b>>, fa) : r \in Reprs, a \in {P("u8"), P("u32")}, b \in {P("u8"), P("u16")}, fa \in {<<Ign, Plain>>, <<Plain, Ign>>}}
    \cup {StructA(r, <<P("u16"), a, P("u16")>>, <<Plain, Ign, Plain>>) : r \in Reprs, a \in {P("u16"), P("u32"), Str}}
\* runs of four and five primitive fields of equal alignment, some with a niche (bool, char): rustc may permute the inner ones
    \cup {Struct("Rust", <<a, b, c, d>>) : a \in {P("bool"), P("u8")}, b \in {P("bool"), P("u8")}, c \in {P("bool"), P("u8")}, d \in {P("bool"), P("u8")}}
    \cup {Struct("Rust", <<a, b, c, d>>) : a \in {P("char"), P("u32")}, b \in {P("char"), P("u32")}, c \in {P("char"), P("u32")}, d \in {P("char"), P("u32")}}
    \cup {Struct("Rust", <<P("bool"), P("u8"), P("bool"), P("u8"), P("bool")>>), Struct("Rust", <<P("u8"), P("bool"), P("i8"), P("bool"), P("u8")>>),
          Struct("Rust", <<P("bool"), P("u8"), P("u8"), P("bool"), Str>>), Struct("Rust", <<P("u64"), P("bool"), P("u8"), P("bool"), P("u8")>>)}
StructsT ==
    StructsQ
    \cup {Struct(r, <<a, b>>) : r \in Reprs, a \in Mix, b \in Mix}
    \cup {Struct(r, <<a, b, c>>) : r \in Reprs, a \in P4 \cup {P("bool")}, b \in P4 \cup {P("bool")}, c \in P4 \cup {P("bool")}}
    \cup {Struct(r, <<a, b, c, d>>) : r \in Reprs, a \in P3, b \in P3, c \in P3, d \in P3}

U == Var(0, <<>>)
A1(a) == Var(0, <<a>>)
A2(a, b) == Var(0, <<a, b>>)
A3(a, b, c) == Var(0, <<a, b, c>>)
EnumReprs == {"", "u8", "u16", "u32", "i8"}
Shapes == { <<U>>, <<U, U>>, <<U, U, U>>,
            <<A1(P("u8"))>>, <<U, A1(P("u8"))>>, <<A1(P("u8")), A1(P("u8"))>>,
            <<A1(P("u8")), A1(P("u16"))>>, <<A1(P("u32")), A3(P("u8"), P("u8"), P("u16"))>>,
            <<A2(P("u8"), P("u8")), A1(P("u16"))>>, <<U, A1(Str)>>, <<A1(P("u32")), U, A2(P("u16"), P("u16"))>>,
            <<A1(P("bool")), A1(P("u8"))>>,
            <<U, VarA(<<P("u8"), P("u8")>>, <<Plain, Ign>>)>>, <<VarA(<<P("u16"), P("u8")>>, <<Ign, Plain>>), A1(P("u16"))>>,
            <<VarA(<<P("u8"), P("u8")>>, <<Plain, Ign>>), A2(P("u8"), P("u8"))>>,
            <<VarA(<<P("bool"), P("u8"), P("bool"), P("u8")>>, <<Plain, Plain, Plain, Plain>>), U>>,
            <<U, NVar(0, <<P("u8")>>)>>, <<NVar(0, <<P("u8"), P("u16")>>), NVar(0, <<P("u16"), P("u8")>>)>>,
            <<NVar(0, <<P("u32")>>), A1(P("u32")), NVar(0, <<Str, P("u8")>>)>> }
Enums ==
    {Enum(r, sh) : r \in EnumReprs, sh \in Shapes}
    \* explicit discriminants (unit-only, explicit repr): declared value differs from index
    \cup {Enum(r, <<VarD("5", <<>>), VarD("10", <<>>)>>) : r \in {"u8", "u16", "u32"}}
    \cup {Enum(r, <<VarD("1", <<>>), VarD("0", <<>>)>>) : r \in {"u8"}}
    \cup {BigEnum("", 256), BigEnum("", 257)}
    \* (the 65536 / 65537-variant enums of the u16 -> u32 tag switch are NOT generated: rustc needs > 60 GB for the derive output)
    \cup (IF Tier = "thorough" THEN {BigEnum("u8", 256), BigEnum("u16", 257)} ELSE {})

Composites == (IF Tier = "thorough" THEN StructsT ELSE StructsQ) \cup Enums
SmallComposites == {c \in Composites : c.n = 0 /\ Len(c.ts) <= 2}
Wrap2 ==
    {Vec("Vec", c) : c \in Composites}
    \cup {Arr(c, 2) : c \in Composites}
    \cup {Opt(c) : c \in SmallComposites}
    \cup {Vec("BoxSlice", c) : c \in SmallComposites}
    \cup {Vec("ArcSlice", c) : c \in SmallComposites}
    \cup {Struct(r, <<c, P("u8")>>) : r \in Reprs, c \in SmallComposites}
    \cup {Struct(r, <<P("u16"), c>>) : r \in {"C"}, c \in SmallComposites}
    \cup {Vec("Vec", w) : w \in {Vec("Vec", P("u8")), Opt(P("u32")), Arr(P("u16"), 3), Tup(<<P("u8"), P("u8")>>),
                                 Tup(<<P("u8"), P("u32")>>), Str, Arr(P("bool"), 3)}}
    \cup {Opt(Opt(P("u8"))), Opt(Vec("Vec", Str)), Arr(Arr(P("u8"), 2), 2), Bx("Box", Vec("Vec", P("u16")))}
    \* value types that contain a container of the key type (recursion guard of the map impls)
    \cup {Map(k, P("u32"), Vec("Vec", P("u32"))) : k \in MapKinds}
    \cup {Map(k, Str, Opt(Vec("Vec", Str))) : k \in {"HashMap", "BTreeMap"}}

Catalogue == Leaves \cup Wrap1 \cup Composites \cup Wrap2

VARIABLES t, v, ver, phase, todo, out, wcalls, rd, ri
vars == <<t, v, ver, phase, todo, out, wcalls, rd, ri>>

NoRd == R(FALSE, Unit, 0, "", <<>>)

Init ==
    /\ t \in Catalogue
    /\ LET vals == Vals(t) IN \E i \in 1..Len(vals) : v = vals[i]
    /\ ver = 0
    /\ phase = "write"
    /\ todo = Settle(<<Fr(t, v)>>, ver)
    /\ out = <<>>
    /\ wcalls = <<>>
    /\ rd = NoRd
    /\ ri = 0

\* one primitive write call (the grain an instrumented Write sees)
WCall ==
    /\ phase = "write" /\ todo # <<>> /\ Head(todo).t.k = "raw"
    /\ out' = out \o Head(todo).v.bs
    /\ wcalls' = Append(wcalls, Len(Head(todo).v.bs))
    /\ todo' = Settle(Tail(todo), ver)
    /\ UNCHANGED <<t, v, ver, phase, rd, ri>>
WPanic ==
    /\ phase = "write" /\ todo # <<>> /\ Head(todo).t.k = "panic"
    /\ phase' = "panicked"
    /\ UNCHANGED <<t, v, ver, todo, out, wcalls, rd, ri>>
WDone ==
    /\ phase = "write" /\ todo = <<>>
    /\ phase' = "read"
    /\ rd' = Dec(t, out, 0, ver)
    /\ UNCHANGED <<t, v, ver, todo, out, wcalls, ri>>
\* one primitive read call
RCall ==
    /\ phase = "read" /\ ri < Len(rd.reads)
    /\ ri' = ri + 1
    /\ UNCHANGED <<t, v, ver, phase, todo, out, wcalls, rd>>
RDone ==
    /\ phase = "read" /\ ri = Len(rd.reads)
    /\ phase' = "done"
    /\ UNCHANGED <<t, v, ver, todo, out, wcalls, rd, ri>>
Next == WCall \/ WPanic \/ WDone \/ RCall \/ RDone
Spec == Init /\ [][Next]_vars

RECURSIVE Sum(_)
Sum(s) == IF s = <<>> THEN 0 ELSE Head(s) + Sum(Tail(s))

\* every strict prefix of the encoding is rejected by the reader (C07, payload level)
PrefixesRejected == \A k \in 0..(Len(out) - 1) : ~Dec(t, SubSeq(out, 1, k), 0, ver).ok

Done == phase = "done"
\* C01
RoundTrip       == Done => rd.ok /\ rd.v = v
ConsumesExactly == Done => rd.pos = Len(out) /\ Sum(rd.reads) = Len(out)
\* C02: the machine's bytes are the documented encoding, one call per primitive
Deterministic   == Done => out = Enc(t, v, ver) /\ Sum(wcalls) = Len(out)
\* C07
PrefixRejected  == Done => PrefixesRejected
NoPanicHere     == phase # "panicked"

Export == Done => PrintT(ToJson([t |-> t, ver |-> ver, v |-> v, bytes |-> out, wcalls |-> wcalls, reads |-> rd.reads]))
=============================================================================

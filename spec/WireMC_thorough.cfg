CONSTANT Tier = "thorough"
SPECIFICATION Spec
INVARIANT RoundTrip ConsumesExactly Deterministic PrefixRejected NoPanicHere Export
CHECK_DEADLOCK FALSE

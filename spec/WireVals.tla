----------------------------- MODULE WireVals -----------------------------
(***************************************************************************)
(* Boundary-value tables for every descriptor (the "inputs" quantifier).   *)
(* Tables of key-capable types are strictly ascending in Rust's Ord so     *)
(* that BTree containers have a canonical byte order.                      *)
(***************************************************************************)
EXTENDS Wire

Pattern(w) == [i \in 1..w |-> i]                       \* 01 02 03 ..: endianness witness
HighBit(w) == [i \in 1..w |-> IF i = w THEN 128 ELSE 0]
AllFF(w)   == [i \in 1..w |-> 255]
One(w)     == [i \in 1..w |-> IF i = 1 THEN 1 ELSE 0]
Zero(w)    == [i \in 1..w |-> 0]

PrimVals(name) ==
    CASE name = "unit" -> << <<>> >>
      [] name = "bool" -> << <<0>>, <<1>> >>
      [] name = "u8"   -> << <<0>>, <<1>>, <<127>>, <<128>>, <<255>> >>
      [] name = "i8"   -> << <<128>>, <<255>>, <<0>>, <<1>>, <<127>> >>
      [] name = "char" -> << <<0,0,0,0>>, <<65,0,0,0>>, <<255,215,0,0>>, <<0,224,0,0>>, <<255,255,16,0>> >>
      [] name = "f32"  -> << <<0,0,0,0>>, <<0,0,0,128>>, <<0,0,128,63>>, <<0,0,192,127>>,
                             <<1,0,160,127>>, <<0,0,128,127>>, <<1,0,0,0>>, <<1,2,3,4>> >>
      [] name = "f64"  -> << Zero(8), HighBit(8), <<0,0,0,0,0,0,240,63>>, <<0,0,0,0,0,0,248,127>>,
                             <<1,0,0,0,0,0,244,127>>, <<0,0,0,0,0,0,240,127>>, One(8), Pattern(8) >>
      [] name \in {"u16", "u32", "u64", "u128", "usize"} ->
            LET w == PrimWidth(name) IN << Zero(w), One(w), Pattern(w), HighBit(w), AllFF(w) >>
      [] name \in {"i16", "i32", "i64", "i128", "isize"} ->
            LET w == PrimWidth(name) IN << HighBit(w), AllFF(w), Zero(w), One(w), Pattern(w) >>

StrVals == << <<>>, <<97>>, <<97, 98, 0, 99>>, <<104, 195, 169, 108, 226, 130, 172, 240, 159, 152, 128>> >>

Min(a, b) == IF a < b THEN a ELSE b
Max(a, b) == IF a > b THEN a ELSE b
Pick(tab, i) == tab[((i - 1) % Len(tab)) + 1]

SetKinds  == {"BTreeSet", "HashSet", "IndexSet", "FxHashSet"}
HashKinds == {"HashSet", "FxHashSet", "HashMap", "FxHashMap"}

RECURSIVE Vals(_)
\* diagonal product over a list of field types
Diag(ts, cap) ==
    LET cnt == IF ts = <<>> THEN 1
               ELSE Min(cap, LET RECURSIVE mx(_) mx(i) == IF i > Len(ts) THEN 1 ELSE Max(Len(Vals(ts[i])), mx(i + 1)) IN mx(1))
    IN [j \in 1..cnt |-> [i \in 1..Len(ts) |-> Pick(Vals(ts[i]), j + i - 1)]]

FieldsDiag(t, cap) ==
    \* fields that carry no data in memory (Removed / AbiRemoved / ignored) hold Unit / default
    LET live == [i \in 1..Len(t.ts) |-> IF t.fa[i].rm # "no" THEN P("unit") ELSE t.ts[i]]
        d == Diag(live, cap)
    IN [j \in 1..Len(d) |-> [i \in 1..Len(t.ts) |->
            IF t.fa[i].rm # "no" THEN Unit
            ELSE IF t.fa[i].ig THEN FieldDefault(t, i) ELSE d[j][i]]]

SeqLens(t) == IF t.s \in HashKinds \cup {"BinaryHeap"} THEN <<0, 1>> ELSE <<0, 1, 2, 3>>

LibVals(name) ==
    CASE name \in {"ArcStr", "PathBuf", "ArrayString"} -> [i \in 1..Len(StrVals) |-> B(StrVals[i])]
      [] name = "IpAddr" -> << EV(0, <<B(<<1, 0, 0, 127>>)>>), EV(0, <<B(Pattern(4))>>),
                               EV(1, <<B(Pattern(16))>>), EV(1, <<B(One(16))>>) >>
      [] name = "SocketAddr" ->
            << EV(0, <<B(<<80, 0>>), B(<<1, 0, 0, 127>>)>>), EV(0, <<B(<<1, 2>>), B(Pattern(4))>>),
               EV(1, <<B(<<187, 1>>), B(Pattern(16)), B(<<9, 8, 7, 6>>), B(<<5, 4, 3, 2>>)>>) >>
      [] name = "Duration" -> << B(Zero(16)), B(One(16)), B(<<0,202,154,59,0,0,0,0,0,0,0,0,0,0,0,0>>),
                                 B(<<255,201,154,59,0,0,0,0,0,0,0,0,0,0,0,0>>),
                                 B(<<1,2,3,4,5,6,7,8,9,0,0,0,0,0,0,0>>) >>
      [] name = "SystemTime" -> << B(Zero(16)), B(One(16)), B(<<1,2,3,4,5,6,7,8,0,0,0,0,0,0,0,0>>),
                                   B(<<1,0,0,0,0,0,0,0,0,0,0,0,0,0,0,128>>),
                                   B(<<1,2,3,4,5,6,7,8,0,0,0,0,0,0,0,128>>) >>
      [] name = "IoError" -> << L(<<B(<<1, 0>>), B(<<110, 102>>)>>), L(<<B(<<40, 0>>), B(<<>>)>>),
                                L(<<B(<<38, 0>>), B(<<101, 111, 102>>)>>) >>
      [] name = "Canary1" -> << B(<<67, 104, 86, 71>>) >>
      [] name = "DateTimeUtc" -> << B(Zero(8)), B(One(8)), B(Pattern(8)), B(AllFF(8)) >>
      [] name \in BitKinds ->
            \* (bits, bytes | 2^63, storage words)
            << L(<<B(Zero(8)), B(HighBit(8)), B(<<>>)>>),
               L(<<B(<<3,0,0,0,0,0,0,0>>), B(<<4,0,0,0,0,0,0,128>>), B(<<5,0,0,0>>)>>),
               L(<<B(<<33,0,0,0,0,0,0,0>>), B(<<8,0,0,0,0,0,0,128>>), B(<<1,2,3,4,1,0,0,0>>)>>) >>
      [] name = "RecTree" ->
            LET leaf(v) == L(<<B(<<v>>), L(<<>>)>>)  node(v, kids) == L(<<B(<<v>>), L(kids)>>) IN
            << leaf(0), node(1, <<leaf(2)>>), node(255, <<leaf(3), node(4, <<leaf(5), leaf(6)>>)>>),
               node(7, <<node(8, <<leaf(9)>>), leaf(10), leaf(11)>>) >>
      [] name = "RecList" ->
            LET cons(v, nx) == L(<<B(<<v, 1>>), nx>>) IN
            << cons(0, None), cons(1, Some(cons(2, None))), cons(3, Some(cons(4, Some(cons(5, Some(cons(6, None))))))) >>
      [] OTHER -> Vals(LibEquiv(name))

Vals(t) ==
    CASE t.k = "p"   -> LET tab == PrimVals(t.s) IN [i \in 1..Len(tab) |-> B(tab[i])]
      [] t.k = "str" -> [i \in 1..Len(StrVals) |-> B(StrVals[i])]
      [] t.k = "vec" ->
            LET ev == Vals(t.ts[1])  ls == SeqLens(t) IN
            [j \in 1..Len(ls) |->
                L([i \in 1..Min(ls[j], IF t.s \in SetKinds \/ t.s = "BinaryHeap" THEN Len(ev) ELSE ls[j]) |->
                     IF t.s \in SetKinds THEN ev[i] ELSE Pick(ev, i + j)])]
      [] t.k = "arr" ->
            LET ev == Vals(t.ts[1]) IN
            [j \in 1..(IF t.n = 0 THEN 1 ELSE Min(2, Len(ev))) |-> L([i \in 1..t.n |-> Pick(ev, i + j - 1)])]
      [] t.k = "opt" ->
            LET ev == Vals(t.ts[1]) IN
            <<None>> \o [j \in 1..Min(3, Len(ev)) |-> Some(ev[j])]
      [] t.k = "res" ->
            LET ov == Vals(t.ts[1])  ev == Vals(t.ts[2]) IN
            [j \in 1..Min(2, Len(ov)) |-> OkV(ov[j])] \o [j \in 1..Min(2, Len(ev)) |-> ErrV(ev[j])]
      [] t.k = "box" -> Vals(t.ts[1])
      [] t.k = "tup" -> LET d == Diag(t.ts, 5) IN [j \in 1..Len(d) |-> L(d[j])]
      [] t.k = "map" ->
            LET kv == Vals(t.ts[1])  vv == Vals(t.ts[2])
                ls == IF t.s \in HashKinds THEN <<0, 1>> ELSE <<0, 1, 2>> IN
            [j \in 1..Len(ls) |->
                L([i \in 1..(2 * Min(ls[j], Len(kv))) |->
                     IF i % 2 = 1 THEN kv[(i + 1) \div 2] ELSE Pick(vv, (i \div 2) + j)])]
      [] t.k = "struct" -> LET d == FieldsDiag(t, 5) IN [j \in 1..Len(d) |-> L(d[j])]
      [] t.k = "enum" ->
            IF t.n > 0 THEN
               \* all-unit enum with t.n variants: boundary variants only
               LET idx == IF t.n > 65536 THEN <<0, 255, 256, 65535, 65536, t.n - 1>>
                          ELSE IF t.n > 256 THEN <<0, 255, 256, t.n - 1>> ELSE <<0, t.n - 1>>
               IN [j \in 1..Len(idx) |-> EV(idx[j], <<>>)]
            ELSE Flat([vi \in 1..Len(t.ts) |->
                        LET d == FieldsDiag(t.ts[vi], 2) IN [j \in 1..Len(d) |-> EV(vi - 1, d[j])]])
      [] t.k = "lib" -> LibVals(t.s)
=============================================================================
